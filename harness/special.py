"""Explorers for the properties that are not about step traces: C12 (impact distribution), C15 (label
order), C16 (records), C17 (determinism / isolation / inputs untouched), and the malformed-input
stream of C20.  Each returns the same result structure as runner.explore."""
from __future__ import annotations

import copy
import itertools
import json
import random
import os
import tempfile
import shutil
from pathlib import Path

from harness.common import quiet_loop, Driver, NonFinite, np, q, unq
from harness import capture, corpus, corr, known, oracles, paired, props, scen

import pandas as pd  # noqa: E402
from boario import event as bev  # noqa: E402
from boario.simulation import Simulation  # noqa: E402
from boario.extended_models import ARIOPsiModel  # noqa: E402
from boario.model_base import ARIOBaseModel  # noqa: E402


def new_result(pid):
    tag, rule = props.NONTRIVIAL.get(pid, ("", ""))
    return {"violations": [], "known": [], "mismatches": [], "corr_obligations": 0, "corr_ok": 0, "scenarios": 0, "steps": 0,
            "nontrivial": 0, "rule": rule, "samples": [], "distribution": {}, "branches": {}, "ties": {}, "corpus": {},
            "paired_runs": 0}


def run_corpus(pid, res):
    cres = corpus.run_all(props=[pid])
    for fid, v in cres.items():
        res["corpus"][fid] = {"holds": v["holds"], "detail": v["detail"][:200]}
        if not v["holds"]:
            kf = known.match_trigger(pid, fid)
            if kf:
                if kf not in res["known"]:
                    res["known"].append(kf)
            else:
                res["violations"].append({"violation": {"property": pid, "what": f"corpus trigger {fid} fails: {v['doc']}", "detail": v["detail"]},
                                          "trigger": fid, "scenario": None})


def viol(res, pid, what, case=None, **kw):
    if len(res["violations"]) < 20:
        d = {"property": pid, "what": what}
        d.update(kw)
        res["violations"].append({"violation": d, "scenario": None, "case": case})


def bump(res, key):
    res["distribution"][key] = res["distribution"].get(key, 0) + 1


# ====================================================================== C12

REGS = ["rA", "rB", "rC"]
SECS = ["agri", "build", "manu", "serv"]


def lab(r, s):
    return REGS.index(r) * len(SECS) + SECS.index(s)


def gen_c12_case(rng: random.Random):
    kind = rng.choice(["industries", "industries", "regions_sectors", "regions_sectors", "series"])
    impact = rng.choice([1.0, 100.0, 12345.678, 1e9, 0.5, 0.05, 150000.0])
    bad = rng.random() < 0.3
    case = {"kind": kind, "impact": impact, "event_type": rng.choice(["recovery", "rebuild"]), "bad": None,
            "emf": rng.choice([10**6, 10**6, 1, 10**3])}
    if case["event_type"] == "rebuild" and random.Random(repr(impact) + kind).random() < 0.5:
        case["reb_factor"] = random.Random(repr(impact) + kind + "f").choice([0.9, 2.0, 0.5])     # (the tutorial's example uses 0.9)

    def weights(keys, universe):
        mode = rng.choice(["equal", "exact", "superset", "unsorted", "unnormalised", "tiny", "nearly_normalised", "huge_int", "superset_neg"])
        if mode == "huge_int":
            # whole numbers of the order of 1e15 (outputs in currency units), integer dtype: their pairwise products exceed 2**63
            return {k: float(rng.choice([1, 2, 3, 5, 7]) * 10**15) for k in keys}, mode
        if mode == "superset_neg":
            # a vector covering more labels than the affected ones (value added of every industry, say), negative for one
            # label that is NOT affected: only the affected entries are weights
            others = [u for u in universe if u not in keys]
            if others:
                w = {k: rng.choice([1.0, 2.0, 0.5, 7.0]) for k in keys}
                w[rng.choice(others)] = -rng.choice([1.0, 3.5])
                items = list(w.items())
                rng.shuffle(items)
                return dict(items), mode
            mode = "exact"
        if mode == "equal":
            return None, mode
        ks = list(keys)
        if mode == "superset":
            ks = list(dict.fromkeys(ks + rng.sample(universe, rng.randint(1, max(1, len(universe) // 2)))))
        w = {k: rng.choice([1.0, 2.0, 0.5, 7.0, 0.25, 1e-4, 3e-6]) for k in ks}
        if mode == "tiny":
            # weights of very small magnitude (only their ratios matter)
            w = {k: v * 1e-9 for k, v in w.items()}
        elif mode != "unnormalised":
            tot = sum(w.values())
            w = {k: v / tot for k, v in w.items()}
        if mode == "nearly_normalised":
            # shares written with seven decimals: they add up to 1 only to within 1e-6; keys exactly the affected set, in order
            w = {k: float(f"{v:.7f}") for k, v in w.items() if v >= 1e-6} if all(v >= 1e-6 for v in w.values()) else w
            if abs(sum(w.values()) - 1.0) < 1e-9 and len(w) >= 2:
                k0 = next(iter(w))
                w[k0] = w[k0] + 4e-7          # (published shares rarely add up to 1 exactly: within 1e-6 they are accepted as shares)
            return dict(w), mode
        items = list(w.items())
        rng.shuffle(items)
        return dict(items), mode

    if kind == "industries":
        allind = [(r, s) for r in REGS for s in SECS]
        aff = rng.sample(allind, rng.randint(1, 6))
        w, mode = weights(aff, allind)
        case.update({"aff": aff, "weights": None if w is None else [[list(k), v] for k, v in w.items()], "wmode": mode})
        if bad:
            b = rng.choice(["nonpositive", "empty", "missing", "negative", "zero_weight"])
            case["bad"] = b
            if b == "nonpositive":
                case["impact"] = rng.choice([0.0, -5.0])
            elif b == "empty":
                case["aff"] = []
            elif b == "missing":
                ww = {k: 1.0 for k in aff[1:]} or {allind[0] if allind[0] != aff[0] else allind[1]: 1.0}
                case["weights"] = [[list(k), v] for k, v in ww.items()]
            elif b == "negative":
                ww = {k: 1.0 for k in aff}
                ww[aff[0]] = -0.5
                if len(aff) == 1:
                    # a single negative weight renormalises to 1: not an invalid input
                    ww[aff[0]] = -1.0
                    case["bad"] = None
                case["weights"] = [[list(k), v] for k, v in ww.items()]
            elif b == "zero_weight" and len(aff) >= 2:
                ww = {k: 1.0 for k in aff}
                ww[aff[0]] = 0.0
                case["weights"] = [[list(k), v] for k, v in ww.items()]
            else:
                case["bad"] = None
        if case["bad"] is None and case["aff"] and random.Random(repr(case["aff"])).random() < 0.15:
            # an industry listed twice (as for regions and sectors, a duplicate is the same industry once)
            case["aff"] = list(case["aff"]) + [random.Random(repr(case["aff"]) + "d").choice(case["aff"])]
    elif kind == "regions_sectors":
        regs = rng.sample(REGS, rng.randint(1, 3))
        secs = rng.sample(SECS, rng.randint(1, 3))
        if rng.random() < 0.25:
            # a region or sector listed twice is documented as valid (duplicates are removed with a warning)
            if rng.random() < 0.5:
                regs = regs + [rng.choice(regs)]
            else:
                secs = secs + [rng.choice(secs)]
        wr, mr = weights(regs, REGS)
        ws, ms = weights(secs, SECS)
        if "huge_int" in (mr, ms):
            # outputs in whole currency units on both levels (their pairwise products exceed the range of 64-bit integers)
            wr, mr = {k: float(rng.choice([1, 2, 3, 5, 7]) * 10**15) for k in regs}, "huge_int"
            ws, ms = {k: float(rng.choice([1, 2, 3, 5, 7]) * 10**15) for k in secs}, "huge_int"
        case.update({"regs": regs, "secs": secs, "wr": None if wr is None else list(map(list, wr.items())),
                     "ws": None if ws is None else list(map(list, ws.items())), "wmode": mr + "/" + ms})
        if bad:
            b = rng.choice(["nonpositive", "missing_region_weight", "negative_sector_weight"])
            case["bad"] = b
            if b == "nonpositive":
                case["impact"] = 0.0
            elif b == "missing_region_weight":
                other = [r for r in REGS if r not in regs]
                case["wr"] = [[r, 1.0] for r in (regs[1:] + other[:1])] or [[other[0], 1.0]] if (regs[1:] or other) else None
                if case["wr"] is None or all(r in [x[0] for x in case["wr"]] for r in regs):
                    case["bad"] = None
            elif b == "negative_sector_weight":
                # a weight vector is a function of the label: one entry per distinct sector (the list of affected
                # sectors may name a sector twice, which is documented as valid)
                usecs = list(dict.fromkeys(secs))
                case["ws"] = [[s, (-1.0 if i == 0 else 3.0)] for i, s in enumerate(usecs)]
                if len(usecs) == 1:
                    case["bad"] = None
                    case["ws"] = None
    else:
        allind = [(r, s) for r in REGS for s in SECS]
        aff = rng.sample(allind, rng.randint(1, 5))
        vals = {k: rng.choice([1.0, 5.5, 1000.0, 0.0]) for k in aff}
        if bad:
            b = rng.choice(["negative", "empty"])
            case["bad"] = b
            if b == "negative":
                vals[aff[0]] = -3.0
            else:
                vals = {}
        if vals and all(v == 0.0 for v in vals.values()) and case["bad"] is None:
            case["bad"] = "empty"          # an impact made only of zeros is an empty impact
        case["series"] = [[list(k), v] for k, v in vals.items()]
    return case


def _c12_dtype(vals):
    """whole numbers of the order of 1e15 are given with an integer dtype"""
    return "int64" if vals and all(float(v).is_integer() and abs(v) >= 1e14 for v in vals) else float


_C12_MODEL = []


def _c12_model():
    """a small model (monetary factor 10**3: never the event's) on the labels of the C12 cases, built once and rebuilt when used"""
    try:
        tbm = corpus.base_table(m=len(REGS), n=len(SECS), k=1, seed=11, scale=1e6)
        cfgm = corpus.base_cfg(monetary_factor=10**3)
        return scen.build_model(tbm, cfgm)
    except Exception:
        return None


def fixed_c12_cases():
    """combinations that a few hundred random cases reach once or never"""
    out = []
    # one affected industry, weights that do not cover it (must be refused like any missing weight)
    out.append({"kind": "industries", "impact": 100.0, "event_type": "recovery", "bad": "missing", "emf": 10**6, "aff": [("rB", "manu")],
                "weights": [[["rA", "agri"], 1.0], [["rA", "build"], 2.0]], "wmode": "exact"})
    out.append({"kind": "industries", "impact": 100.0, "event_type": "rebuild", "bad": "missing", "emf": 1, "aff": [("rC", "serv")],
                "weights": [[["rC", "agri"], 1.0]], "wmode": "exact"})
    # a region / a sector listed twice, two distinct values on each level
    out.append({"kind": "regions_sectors", "impact": 1200.0, "event_type": "recovery", "bad": None, "emf": 10**6,
                "regs": ["rA", "rB", "rA"], "secs": ["agri", "manu"], "wr": None, "ws": [["agri", 1.0], ["manu", 3.0]], "wmode": "equal/exact"})
    out.append({"kind": "regions_sectors", "impact": 1200.0, "event_type": "rebuild", "bad": None, "emf": 10**3,
                "regs": ["rA", "rC"], "secs": ["serv", "build", "serv"], "wr": [["rA", 2.0], ["rC", 1.0]], "ws": None, "wmode": "exact/equal"})
    # shares published with seven decimals, indexed exactly by the affected industries in their order
    out.append({"kind": "industries", "impact": 12345.678, "event_type": "recovery", "bad": None, "emf": 10**6,
                "aff": [("rA", "agri"), ("rB", "build"), ("rC", "manu")],
                "weights": [[["rA", "agri"], 0.1428571], [["rB", "build"], 0.2857143], [["rC", "manu"], 0.5714289]], "wmode": "nearly_normalised"})
    return out


def run_c12_impl(case):
    kw = dict(occurrence=1, duration=1, event_monetary_factor=case.get("emf", 10**6))
    if case["event_type"] == "rebuild":
        kw.update(event_type="rebuild", rebuild_tau=10, rebuilding_sectors={"build": 1.0})
        if case.get("reb_factor") is not None:
            kw["rebuilding_factor"] = case["reb_factor"]
    else:
        kw.update(event_type="recovery", recovery_tau=5)
    given = []          # the caller's own weight vectors, and what they held when handed over
    try:
        if case["kind"] == "industries":
            w = case["weights"]
            distrib = "equal" if w is None else pd.Series({tuple(k): v for k, v in w}, dtype=_c12_dtype([v for _, v in w]))
            if w is not None:
                distrib.index = pd.MultiIndex.from_tuples(list(distrib.index), names=["region", "sector"]) if len(distrib) else distrib.index
            if w is not None:
                given.append((distrib, distrib.copy(deep=True)))
            ev = bev.from_scalar_industries(case["impact"], affected_industries=[tuple(a) for a in case["aff"]], impact_distrib=distrib, **kw)
        elif case["kind"] == "regions_sectors":
            wr = "equal" if case["wr"] is None else pd.Series({k: v for k, v in case["wr"]}, dtype=_c12_dtype([v for _, v in case["wr"]]))
            ws = "equal" if case["ws"] is None else pd.Series({k: v for k, v in case["ws"]}, dtype=_c12_dtype([v for _, v in case["ws"]]))
            for w_ in (wr, ws):
                if not isinstance(w_, str):
                    given.append((w_, w_.copy(deep=True)))
            ev = bev.from_scalar_regions_sectors(case["impact"], affected_regions=list(case["regs"]), affected_sectors=list(case["secs"]),
                                                 impact_regional_distrib=wr, impact_sectoral_distrib=ws, **kw)
        else:
            s = pd.Series({tuple(k): v for k, v in case["series"]}, dtype=float)
            if len(s):
                s.index = pd.MultiIndex.from_tuples(list(s.index), names=["region", "sector"])
            ev = bev.from_series(s, **kw)
    except Exception as e:
        return {"out": "reject", "exc": f"{type(e).__name__}: {str(e)[:100]}"}
    # registering the event in a simulation whose unit differs from the event's leaves the event as it was
    try:
        mdl = _c12_model()
        if mdl is not None and not ev.impact.index.has_duplicates:
            before_reg = ev.impact.copy(deep=True)
            simr = Simulation(mdl, n_temporal_units_to_sim=5)
            simr.add_event(ev)
            after_reg = ev.impact
            if not (after_reg.index.equals(before_reg.index) and np.array_equal(after_reg.to_numpy(), before_reg.to_numpy(), equal_nan=True)):
                return {"out": "ok", "impact": {}, "order": [], "total": float(ev.total_impact), "aff": [], "event_modified": True}
    except Exception:
        pass
    for obj, was in given:
        if not (obj.index.equals(was.index) and np.array_equal(obj.to_numpy(), was.to_numpy(), equal_nan=True)):
            return {"out": "ok", "impact": {}, "order": [], "total": float(ev.total_impact), "aff": [], "weights_modified": True}
    imp = ev.impact
    if imp.index.has_duplicates:
        return {"out": "ok", "impact": {}, "order": [], "total": float(ev.total_impact), "aff": [], "duplicated_index": True}
    return {"out": "ok", "impact": {lab(r, s): float(v) for (r, s), v in imp.items()},
            "order": [lab(r, s) for (r, s) in imp.index], "total": float(ev.total_impact),
            "aff": sorted(lab(r, s) for (r, s) in ev.aff_industries)}


def run_c12_model(dr: Driver, case):
    if case["kind"] == "industries":
        w = case["weights"]
        req = {"op": "impact", "kind": "industries", "impact": q(case["impact"]), "aff": list(dict.fromkeys(lab(*a) for a in case["aff"])),
               "weights": None if w is None else [[lab(*k), q(v)] for k, v in w]}
    elif case["kind"] == "regions_sectors":
        req = {"op": "impact", "kind": "regions_sectors", "impact": q(case["impact"]),
               "regs": [REGS.index(r) for r in dict.fromkeys(case["regs"])], "secs": [SECS.index(s) for s in dict.fromkeys(case["secs"])], "nSec": len(SECS),
               "wr": None if case["wr"] is None else [[REGS.index(k), q(v)] for k, v in case["wr"]],
               "ws": None if case["ws"] is None else [[SECS.index(k), q(v)] for k, v in case["ws"]]}
    else:
        req = {"op": "impact", "kind": "series", "impact": "1", "l": [[lab(*k), q(v)] for k, v in case["series"]]}
    ans = dr.ask(req)
    if ans["out"] == "ok":
        return {"out": "ok", "impact": {int(k): unq(v) for k, v in ans["l"]}}
    return {"out": "reject", "why": ans["why"]}


def explore_c12(tier, seed):
    res = new_result("C12")
    res["rule"] = ("cases drawn by harness/special.py:gen_c12_case from PRNG(seed): the three scalar / series constructors with equal, exact, "
                   "superset-indexed, unsorted and unnormalised weights, plus one invalid feature at a time; non-trivial = non-uniform weights or an invalid input")
    run_corpus("C12", res)
    n = 250 if tier != "thorough" else 4000
    dr = Driver()
    seen = set()
    try:
        fixed = fixed_c12_cases()
        for i in range(n + len(fixed)):
            rng = random.Random(seed * 7919 + i)
            case = gen_c12_case(rng) if i < n else fixed[i - n]
            res["scenarios"] += 1
            res["steps"] += 1
            bump(res, f"{case['kind']}/{case.get('wmode', '-')}/{case['bad'] or 'valid'}")
            impl = run_c12_impl(case)
            model = run_c12_model(dr, case)
            res["corr_obligations"] += 1
            if len(res["samples"]) < 3:
                res["samples"].append({"case": case, "impl": impl, "model": model})
            ok = impl["out"] == model["out"]
            if ok and impl["out"] == "ok":
                ok = set(impl["impact"]) == set(model["impact"]) and all(
                    abs(impl["impact"][k] - model["impact"][k]) <= 1e-12 * max(abs(model["impact"][k]), 1e-300) for k in model["impact"])
            if ok:
                res["corr_ok"] += 1
            elif len(res["mismatches"]) < 20:
                res["mismatches"].append({"phase": "impact", "case": case, "impl": impl, "model": model})
            # the property itself, on the implementation
            if case["bad"] in ("nonpositive", "empty", "missing", "negative", "missing_region_weight", "negative_sector_weight"):
                if impl["out"] == "ok":
                    viol(res, "C12", f"invalid input accepted ({case['bad']})", case=case, impl=impl)
            elif impl["out"] != "ok":
                viol(res, "C12", "valid input rejected", case=case, impl=impl)
            elif impl.get("event_modified"):
                viol(res, "C12", "registering the event in a simulation changed its per-industry impacts (they no longer add up to the scalar)", case=case)
            elif impl.get("weights_modified"):
                viol(res, "C12", "the weight vector given by the caller was modified by the constructor (a second event built from it gets other shares)", case=case)
            elif impl.get("duplicated_index"):
                viol(res, "C12", "per-industry impact has a duplicated industry", case=case)
            else:
                vals = impl["impact"]
                tot = sum(vals.values())
                if case["kind"] != "series":
                    if abs(tot - case["impact"]) > 1e-12 * abs(case["impact"]):
                        viol(res, "C12", "impacts do not add up to the scalar", case=case, total=tot)
                    if any(v <= 0 for v in vals.values()):
                        viol(res, "C12", "non-positive per-industry impact", case=case)
                    if case["kind"] == "industries":
                        want_aff = sorted(set(lab(*a) for a in case["aff"]))          # (an industry listed twice is that industry once)
                        w = case["weights"]
                        wd = None if w is None else {lab(*k): v for k, v in w}
                        if wd is not None:
                            want_aff = [k for k in want_aff if wd.get(k, 0) != 0]
                            wsum = sum(wd[k] for k in want_aff)
                            want = {k: case["impact"] * wd[k] / wsum for k in want_aff}
                        else:
                            want = {k: case["impact"] / len(want_aff) for k in want_aff}
                    else:
                        wr = None if case["wr"] is None else dict(case["wr"])
                        ws = None if case["ws"] is None else dict(case["ws"])
                        rs, ss = list(dict.fromkeys(case["regs"])), list(dict.fromkeys(case["secs"]))
                        pr = {r: (1 / len(rs) if wr is None else wr[r] / sum(wr[x] for x in rs)) for r in rs}
                        ps = {s: (1 / len(ss) if ws is None else ws[s] / sum(ws[x] for x in ss)) for s in ss}
                        want = {lab(r, s): case["impact"] * pr[r] * ps[s] for r in rs for s in ss}
                    if sorted(vals) != sorted(want):
                        viol(res, "C12", "affected set differs from the requested one", case=case, got=sorted(vals), want=sorted(want))
                    elif any(abs(vals[k] - want[k]) > 1e-12 * abs(want[k]) for k in want):
                        viol(res, "C12", "shares are not the requested proportions", case=case, got=vals, want=want)
                    if impl["order"] != sorted(impl["order"]):
                        viol(res, "C12", "impact not reported in lexicographic order", case=case)
            if case.get("wmode", "equal") != "equal" or case["bad"]:
                seen.add(i)
    finally:
        dr.close()
    res["nontrivial"] = len(seen)
    return res


# ====================================================================== C20: malformed stream


def malformed_cases():
    """(name, callable raising iff the input is rejected).  One violation of the documented domain at a time."""
    tb = corpus.base_table()
    cfg = corpus.base_cfg()
    cases = []

    def table_missing(attr):
        def f():
            io = scen.build_table(tb)
            setattr(io, attr, None)
            ARIOPsiModel(io)
        return f
    for a in ("x", "Z", "Y", "A"):
        cases.append((f"table without {a}", table_missing(a)))

    def table_short(attr, axis):
        def f():
            io = scen.build_table(tb)
            df = getattr(io, attr)
            setattr(io, attr, df.drop(index=df.index[1]) if axis == 0 else df.drop(columns=df.columns[1]))
            ARIOPsiModel(io)
        return f
    for a, ax, what in (("Y", 0, "final demand lacks the row of an industry"), ("Z", 0, "Z lacks the row of an industry"),
                        ("Z", 1, "Z lacks the column of an industry"), ("x", 0, "output lacks an industry")):
        cases.append((f"incomplete table: {what}", table_short(a, ax)))

    def table_nan(attr):
        def f():
            io = scen.build_table(tb)
            df = getattr(io, attr).copy()
            df.iloc[1, 0] = float("nan")
            setattr(io, attr, df)
            sim = Simulation(ARIOPsiModel(io), n_temporal_units_to_sim=5)
            quiet_loop(sim)
            if not np.isfinite(sim.final_demand_unmet.to_numpy(dtype=float)[:5]).all() or not np.isfinite(sim.production_realised.to_numpy(dtype=float)[:5]).all():
                return          # accepted, and the run records NaN without reporting anything: counted as accepted
        return f
    for a in ("Y", "Z", "x"):
        cases.append((f"table with a missing (NaN) entry in {a}", table_nan(a)))

    def table_inf(attr):
        def f():
            import pymrio
            io = scen.build_table(tb)
            df = getattr(io, attr).copy().astype(float)
            df.iloc[1, 0] = float("inf")
            setattr(io, attr, df)
            if attr == "Z":
                io.A = pymrio.calc_A(io.Z, io.x)          # coefficients consistent with the flows as given
            sim = Simulation(ARIOPsiModel(io), n_temporal_units_to_sim=5)
            quiet_loop(sim)
            if sim.has_crashed:
                raise RuntimeError("reported by the crashed flag")
        return f
    for a in ("Y", "Z"):
        cases.append((f"table with an infinite entry in {a}", table_inf(a)))

    def _run_with_event(cfg_):
        """build, add one recovery event, run: a bad parameter that only bites once an inventory is off its goal"""
        sim_ = scen.build_sim(corpus.mk_sc(tb, cfg_, [corpus.rec_event(tb, cfg, frac=0.3, occ=1, dur=2, tau=3)], T=10))
        quiet_loop(sim_)
        for r_ in ("intermediate_demand", "final_demand_unmet", "production_realised"):
            if not np.isfinite(getattr(sim_, r_).to_numpy(dtype=float)[:10]).all():
                return          # accepted, non-finite values recorded without report
        if sim_.has_crashed:
            raise RuntimeError("reported by the crashed flag")
        raise RuntimeError("accepted and harmless (finite records): not counted")

    def inconsistent_A_null_column():
        tbz = corpus.base_table("zero_output", seed=3)
        io = scen.build_table(tbz)
        xz = io.x.to_numpy().ravel()
        if not (xz == 0).any():
            raise RuntimeError("no zero-output industry in this table: not counted")
        j = int(np.argmax(xz == 0))
        A2 = io.A.copy()
        A2.iloc[0, j] = 0.21
        io.A = A2
        ARIOPsiModel(io)
    cases.append(("technical coefficients inconsistent with Z and x in the column of an industry without output", inconsistent_A_null_column))

    def inconsistent_A():
        io = scen.build_table(tb)
        io.A = io.A * 1.5
        ARIOPsiModel(io)
    cases.append(("technical coefficients inconsistent with Z and x", inconsistent_A))
    _secs_m = scen.labels(tb)[1]
    cases.append(("capital ratio dictionary missing a sector",
                  lambda: scen.build_model(tb, dict(cfg, capital={"kind": "dict", "values": {s_: 4 for s_ in _secs_m[:-1]}}))))
    cases.append(("psi above 1", lambda: scen.build_model(tb, dict(cfg, psi=1.2))))
    cases.append(("psi above 1 (string)", lambda: scen.build_model(tb, dict(cfg, psi="1_5"))))
    cases.append(("psi above 1 (string 1_2)", lambda: scen.build_model(tb, dict(cfg, psi="1_2"))))
    cases.append(("psi above 1 (numpy float)", lambda: scen.build_model(tb, dict(cfg, psi=np.float64(1.05)))))
    cases.append(("psi of a wrong type", lambda: scen.build_model(tb, dict(cfg, psi=[0.8]))))
    cases.append(("inventory restoration tau of 0 for one sector (dict form)", lambda: _run_with_event(
        dict(cfg, restoration_tau={s_: (0 if i_ == 0 else 30) for i_, s_ in enumerate(scen.labels(tb)[1])}))))
    cases.append(("non-integer inventory restoration tau", lambda: scen.build_model(tb, dict(cfg, restoration_tau={s: 2.5 for s in scen.labels(tb)[1]}))))
    cases.append(("inventory restoration tau of a wrong type", lambda: scen.build_model(tb, dict(cfg, restoration_tau="60"))))
    cases.append(("inventory restoration dict missing a sector", lambda: scen.build_model(tb, dict(cfg, restoration_tau={"agri": 60}))))

    def ev(_mode="one", **over):
        def f():
            base = corpus.rec_event(tb, cfg)
            base.update(over)
            sim = scen.build_sim(corpus.mk_sc(tb, cfg, [base], T=10, events_mode=_mode))
            quiet_loop(sim)
        return f
    # the same schedule / label checks whichever way the event reaches the simulation
    for _m, _how in (("list", "add_events"), ("ctor", "events_list of the constructor")):
        cases.append((f"occurrence beyond the horizon ({_how})", ev(_m, occ=11)))
        cases.append((f"occurrence + duration beyond the horizon ({_how})", ev(_m, occ=8, dur=5)))
        cases.append((f"unknown region ({_how})", ev(_m, impact={"rZ|agri": 5.0})))
        cases.append((f"unknown sector ({_how})", ev(_m, impact={"rA|nosuch": 5.0})))
    cases.append(("recovery tau zero", ev(recovery_tau=0)))
    cases.append(("recovery tau negative", ev(recovery_tau=-3)))
    cases.append(("recovery tau non-integer", ev(recovery_tau=2.5)))
    cases.append(("recovery tau non-integer (numpy float32, as read from a float32 column)", ev(recovery_tau=np.float32(2.5))))
    cases.append(("recovery tau non-integer (numpy float64)", ev(recovery_tau=np.float64(3.5))))
    cases.append(("occurrence zero", ev(occ=0)))
    cases.append(("occurrence beyond the horizon", ev(occ=11)))
    cases.append(("occurrence + duration beyond the horizon", ev(occ=8, dur=5)))
    cases.append(("duration zero", ev(dur=0)))
    cases.append(("negative impact", ev(impact={"rA|agri": -5.0})))
    cases.append(("mixed-sign impact", ev(impact={"rA|agri": 5.0, "rA|build": -1.0})))
    cases.append(("NaN impact", ev(impact={"rA|agri": float("nan")})))
    cases.append(("infinite impact", ev(impact={"rA|agri": float("inf")})))
    cases.append(("empty impact", ev(impact={})))
    cases.append(("impact made only of zeros", ev(impact={"rA|agri": 0.0, "rB|manu": 0.0})))
    cases.append(("unknown region", ev(impact={"rZ|agri": 5.0})))
    cases.append(("unknown sector", ev(impact={"rA|nosuch": 5.0})))
    K = corpus.capital_of(tb, cfg)
    cases.append(("impact above the capital stock", ev(impact={"rA|agri": float(K[0] * 1.5)})))
    cases.append(("household impact in an unknown region", ev(house={"rZ|gov": 3.0})))
    cases.append(("negative household impact", ev(house={"rA|gov": 3000.0, "rB|gov": -1000.0})))
    cases.append(("household impact on an unknown final-demand category", ev(house={"rA|nosuchcat": 3.0})))

    def reb(**over):
        def f():
            base = corpus.reb_event(tb, cfg)
            base.update(over)
            sim = scen.build_sim(corpus.mk_sc(tb, cfg, [base], T=10))
            quiet_loop(sim)
        return f
    cases.append(("rebuild tau zero", reb(rebuild_tau=0)))
    cases.append(("rebuild tau non-integer", reb(rebuild_tau=1.5)))
    cases.append(("rebuild tau non-integer (numpy float32)", reb(rebuild_tau=np.float32(2.5))))
    cases.append(("rebuilding shares not summing to 1", reb(reb_sectors={"build": 0.5, "manu": 0.3})))
    cases.append(("rebuilding shares not summing to 1 (one share is NaN: the others add up to 1)", reb(reb_sectors={"build": 1.0, "manu": float("nan")})))
    cases.append(("negative rebuilding share (the shares add up to 1)", reb(reb_sectors={"build": 1.5, "manu": -0.5})))
    cases.append(("negative rebuilding factor", reb(factor=-1.0)))
    cases.append(("NaN rebuilding factor", reb(factor=float("nan"))))
    # the same with an impact small enough for no runtime guard to trip: the run must not go through with negative demand
    _small = {kk: vv * 1e-3 for kk, vv in corpus.reb_event(tb, cfg)["impact"].items()}
    cases.append(("negative rebuilding share (the shares add up to 1), small impact", reb(reb_sectors={"build": 1.5, "manu": -0.5}, impact=_small)))
    cases.append(("negative rebuilding factor, small impact", reb(factor=-1.0, impact=_small)))
    cases.append(("rebuilding factor zero", reb(factor=0.0, impact=_small)))

    def capital_vector(kind, **opt):
        def f():
            K_ = [float(v) for v in corpus.capital_of(tb, cfg)]
            if opt.get("nan") is not None:
                K_[opt.pop("nan")] = float("nan")
            sim = scen.build_sim(corpus.mk_sc(tb, dict(cfg, capital=dict({"kind": kind, "values": K_}, **opt)), [], T=6))
            quiet_loop(sim)
            recs = [getattr(sim, r).to_numpy(dtype=float)[: sim.n_temporal_units_simulated] for r in ("production_realised", "production_capacity")]
            if all(np.isfinite(a).all() for a in recs) or sim.has_crashed:
                raise ValueError("(harness) the input was handled: finite records or crash flag")
        return f
    cases.append(("capital vector given as a Series without a value for one industry", capital_vector("series", drop=1)))
    cases.append(("capital vector given as a DataFrame without a value for one industry", capital_vector("dataframe", drop=2)))
    cases.append(("capital vector (array) with a NaN entry", capital_vector("ndarray", nan=0)))
    cases.append(("negative event monetary factor", reb(emf=-10**6)))
    cases.append(("unknown rebuilding sector", reb(reb_sectors={"nosuch": 1.0})))
    cases.append(("rebuilding sectors missing", reb(reb_sectors=None)))

    def arb(**over):
        def f():
            base = corpus.arb_event()
            base.update(over)
            sim = scen.build_sim(corpus.mk_sc(tb, cfg, [base], T=10))
            quiet_loop(sim)
        return f
    cases.append(("arbitrary loss above 100 %", arb(impact={"rA|agri": 1.2})))
    cases.append(("arbitrary loss negative", arb(impact={"rA|agri": -0.2})))
    cases.append(("unknown record name", lambda: scen.build_sim(corpus.mk_sc(tb, cfg, [], T=5, save_records=["no_such_record"]))))
    cases.append(("unknown record name next to a valid one", lambda: scen.build_sim(corpus.mk_sc(tb, cfg, [], T=5, save_records=["production_realised", "no_such_record"]))))
    cases.append(("unknown record name between valid ones", lambda: scen.build_sim(corpus.mk_sc(tb, cfg, [], T=5, save_records=["production_realised", "prodution_capacity", "overproduction"]))))
    cases.append(("save_records as an unknown string", lambda: scen.build_sim(corpus.mk_sc(tb, cfg, [], T=5, save_records="everything"))))

    def not_event():
        sim = scen.build_sim(corpus.mk_sc(tb, cfg, [], T=5))
        sim.add_event("flood")
    cases.append(("add_event with something that is not an Event", not_event))

    def not_list():
        sim = scen.build_sim(corpus.mk_sc(tb, cfg, [], T=5))
        sim.add_events(scen.build_event(corpus.rec_event(tb, cfg)))
    cases.append(("add_events with something that is not a list", not_list))

    def wrong_type():
        bev.from_series(pd.Series({("rA", "agri"): 5.0}), event_type="hurricane", occurrence=1, duration=1)
    cases.append(("unknown event type", wrong_type))
    return cases


def explore_malformed(res):
    """every documented rejection, on the real constructors; plus the model's own validators"""
    n_bad = 0
    for name, fn in malformed_cases():
        res["steps"] += 1
        bump(res, "malformed")
        try:
            fn()
        except Exception as e:
            res["branches"]["rejected:" + type(e).__name__] = res["branches"].get("rejected:" + type(e).__name__, 0) + 1
            continue
        n_bad += 1
        viol(res, "C20", f"input outside the documented domain accepted silently: {name}")
    return n_bad


def model_validators(dr: Driver, res):
    """the rejections that are decision logic of the model, against the implementation"""
    tb = corpus.base_table()
    cfg = corpus.base_cfg()
    # psi
    for psi in (0.5, 1.0, 1.0000001, 2.0):
        res["corr_obligations"] += 1
        try:
            scen.build_model(tb, dict(cfg, psi=psi))
            impl = "ok"
        except ValueError:
            impl = "rejected"
        ans = dr.ask({"op": "mkparams", **corr.table_req(tb), "cfg": corr.config_req(tb, dict(cfg, psi=psi))})
        if ans["out"] == impl:
            res["corr_ok"] += 1
        else:
            res["mismatches"].append({"phase": "validator", "what": f"psi={psi}: implementation {impl}, model {ans['out']}"})
    # schedule
    for T, occ, dur in itertools.product((5, 10), (0, 1, 5, 10, 11), (1, 5, 6)):
        res["corr_obligations"] += 1
        try:
            e = corpus.rec_event(tb, cfg, occ=occ, dur=dur)
            scen.build_sim(corpus.mk_sc(tb, cfg, [e], T=T))
            impl = True
        except ValueError:
            impl = False
        ans = dr.ask({"op": "admission", "T": T, "occ": occ, "dur": dur})
        if ans["admitted"] == impl:
            res["corr_ok"] += 1
        else:
            res["mismatches"].append({"phase": "validator", "what": f"T={T} occ={occ} dur={dur}: implementation admits {impl}, model {ans['admitted']}"})


def event_validators(dr: Driver, res, seed):
    """numeric rejections of the event constructors: the model's `eventRejected` against the real
    constructors + admission, on generated valid and invalid event specifications"""
    tb = corpus.base_table()
    cfg = corpus.base_cfg()
    regs, secs, cats = scen.labels(tb)
    sc0 = corpus.mk_sc(tb, cfg, [], T=12)
    rng = random.Random(seed + 77)
    for i in range(60):
        kind = rng.choice(["rebuild", "recovery", "arbitrary"])
        if kind == "rebuild":
            ev = corpus.reb_event(tb, cfg, occ=rng.randint(1, 4), dur=rng.randint(1, 3), tau=rng.choice([1, 2, 5]),
                                  sectors=rng.choice([{"build": 1.0}, {"build": 0.5, "manu": 0.5}, {"build": 0.7, "manu": 0.3}]))
        elif kind == "recovery":
            ev = corpus.rec_event(tb, cfg, occ=rng.randint(1, 4), dur=rng.randint(1, 3), tau=rng.choice([1, 3, 7]))
        else:
            ev = corpus.arb_event(loss=rng.choice([0.2, 0.9, 1.0]), occ=rng.randint(1, 4), dur=rng.randint(1, 3), tau=rng.choice([1, 3]))
        bad = rng.choice([None, None, "tau0", "neg", "zero", "over", "shares", "shares_close", "dur0", "occ0"])
        if i % 5 == 4:
            bad = ["neg_share", "factor0", "factor_neg", "factor_pos"][(i // 5) % 4]      # (drawn apart: the other draws stay as they were)
        tkey = "rebuild_tau" if kind == "rebuild" else "recovery_tau"
        if bad == "tau0":
            ev[tkey] = 0
        elif bad == "neg":
            ev["impact"] = dict(ev["impact"], **{"rB|manu": -abs(next(iter(ev["impact"].values())))})
        elif bad == "zero":
            ev["impact"] = {kk: 0.0 for kk in ev["impact"]}
        elif bad == "over" and kind == "arbitrary":
            ev["impact"] = {kk: 1.0 + rng.choice([1e-9, 0.2]) for kk in ev["impact"]}
        elif bad == "shares" and kind == "rebuild":
            ev["reb_sectors"] = {"build": 0.6, "manu": 0.3}
        elif bad == "shares_close" and kind == "rebuild":
            ev["reb_sectors"] = {"build": 0.6, "manu": 0.4 + rng.choice([1e-9, 5e-6, 2e-5])}
        elif bad == "neg_share" and kind == "rebuild":
            ev["reb_sectors"] = {"build": 1.25, "manu": -0.25}
        elif bad in ("factor0", "factor_neg", "factor_pos") and kind == "rebuild":
            ev["factor"] = {"factor0": 0.0, "factor_neg": -0.5, "factor_pos": 0.5}[bad]
        elif bad == "dur0":
            ev["dur"] = 0
        elif bad == "occ0":
            ev["occ"] = 0
        res["corr_obligations"] += 1
        res["steps"] += 1
        bump(res, f"event-validator/{kind}/{bad}")
        try:
            sim = scen.build_sim(corpus.mk_sc(tb, cfg, [ev], T=12))
            impl = "ok"
        except Exception as e:
            impl = "rejected"
        sc = corpus.mk_sc(tb, cfg, [ev], T=12)
        try:
            req = {"op": "trackerinit", **corr.table_req(tb), "mf": q(cfg["monetary_factor"]), "mfLog10": 6, "ev": corr.event_req(sc, ev)}
            model = dr.ask(req)["out"]
        except NonFinite:
            model = "rejected"
        if impl == model:
            res["corr_ok"] += 1
        elif len(res["mismatches"]) < 20:
            res["mismatches"].append({"phase": "event validator", "what": f"{kind} event ({bad}): implementation {impl}, model {model}", "event": ev})


def explore_c20_extra(res, dr, seed=0):
    explore_malformed(res)
    model_validators(dr, res)
    event_validators(dr, res, seed)


# ====================================================================== C15: label order


def permuted_twin(sc, rng):
    """the same scenario with every labelled input given in another order"""
    tb = sc["table"]
    m, n, k = tb["m"], tb["n"], tb["k"]
    N, F = m * n, m * k
    perm = {"rows": rng.sample(range(N), N), "cols": rng.sample(range(N), N), "ycols": rng.sample(range(F), F)}
    return perm, rng.randrange(1 << 30), rng.sample(range(N), N)


def run_permuted(sc, perm, dict_order, capital_perm, ev_order):
    sc2 = copy.deepcopy(sc)
    io = scen.build_table(sc["table"], perm=perm)
    model = scen.build_model(sc["table"], sc["model"], io=io, capital_perm=capital_perm, dict_order=dict_order)
    sim = Simulation(model, n_temporal_units_to_sim=sc["T"])
    for i, e in enumerate(sc["events"]):
        sim.add_event(scen.build_event(e, order=ev_order + i))
    return paired.run_records(sc2, sim=sim), model


def explore_c15(tier, seed):
    res = new_result("C15")
    res["rule"] = ("scenarios from harness/scen.py; each is run in canonical label order and with every labelled input permuted (table rows, "
                   "columns and final-demand columns, dictionaries, capital Series / DataFrame, impact and household series, rebuilding "
                   "shares); non-trivial = permutation different from the identity")
    run_corpus("C15", res)
    n = 20 if tier != "thorough" else 200
    dr = Driver()
    try:
        for i in range(n):
            s = seed * 1000003 + i
            rng = random.Random(s)
            sc = scen.gen_scenario(s, rng.choice(["shocked", "shocked", "eventfree"]), T=rng.choice([8, 12]))
            if i % 4 == 1:
                # a rebuilding event with household damage and unequal shares over several rebuilding sectors, listed in
                # reverse alphabetical order
                from harness import runner as _runner
                sc = _runner.gen_for("rebuild", s)
                sc["T"] = 12
                regs_, secs_, cats_ = scen.labels(sc["table"])
                for ev in sc["events"]:
                    ev["occ"], ev["dur"] = min(ev["occ"], 4), min(ev["dur"], 3)
                    if ev["type"] == "rebuild":
                        ev["occ"], ev["dur"] = min(ev["occ"], 3), 1
                        tot_ = sum(ev["impact"].values())
                        ev["house"] = {f"{regs_[0]}|{cats_[0]}": tot_ * 0.5}
                        if rng.random() < 0.6:
                            # a full vector over every (region, category), zero where there is no damage, listed in reverse order
                            full_ = [f"{r_}|{c_}" for r_ in regs_ for c_ in cats_]
                            ev["house"] = {kk_: (tot_ * 0.5 if kk_ == f"{regs_[0]}|{cats_[0]}" else 0.0) for kk_ in reversed(full_)}
                        two = sorted(secs_[:2], reverse=True)
                        ev["reb_sectors"] = {two[0]: 0.7, two[1]: 0.3}
                        if len(secs_) >= 3 and rng.random() < 0.6:
                            # three shares whose floating-point sum depends on the order in which they are added
                            three = rng.sample(secs_, 3)
                            ev["reb_sectors"] = dict(zip(three, rng.choice([(0.1, 0.2, 0.7), (0.7, 0.2, 0.1), (0.1, 0.3, 0.6), (0.6, 0.1, 0.3)])))
                        ev["shares_series"] = rng.random() < 0.5
                        if rng.random() < 0.5 and ev.get("ctor") != "industries":
                            ev["categorical"] = True          # impact Series with categorical index levels
                            ev["ctor"] = "series"
            if i % 4 == 3:
                # sector names that differ only by capitalisation, each with its own inventory duration / restoration time /
                # capital ratio; one of the twins lists every dictionary in the reverse order
                sc = scen.gen_scenario(s, rng.choice(["shocked", "eventfree"]), T=rng.choice([8, 12]), labels="case", n=rng.choice([3, 4]))
                secs_c = scen.labels(sc["table"])[1]
                durs = rng.sample([90, 60, 30, 10, 5, 3], len(secs_c))
                sc["model"]["inventory_dict"] = dict(zip(secs_c, durs))
                sc["model"]["inf_sect"] = None
                if sc["model"]["class"] == "psi":
                    sc["model"]["restoration_tau"] = dict(zip(secs_c, rng.sample([90, 60, 30, 10, 5, 3], len(secs_c))))
                    k_f = rng.choice(secs_c)
                    sc["model"]["restoration_tau"][k_f] = float(sc["model"]["restoration_tau"][k_f])      # written as 90.0
                if sc["model"]["capital"]["kind"] in ("default", "dict"):
                    sc["model"]["capital"] = {"kind": "dict", "values": dict(zip(secs_c, rng.sample([4, 2.5, 10, 1, 6, 3], len(secs_c))))}
            if known.match_scenario("C15", sc):
                continue
            res["scenarios"] += 1
            bump(res, f"{sc['table']['kind']}/{sc['model']['capital']['kind']}/{len(sc['events'])}ev")
            base = paired.run_records(sc)
            if i % 4 == 3:
                try:
                    twin_r, _mr = run_permuted(sc, {"rows": None, "cols": None, "ycols": None}, "reversed", None, rng.randrange(1 << 30))
                    res["paired_runs"] += 1
                    for v in paired.cmp_records("C15", base, twin_r, "every dictionary listed in the reverse order (bitwise)"):
                        res["violations"].append({"violation": v, "scenario": sc, "perm": "dictionaries reversed"})
                except Exception as e:
                    viol(res, "C15", f"dictionaries listed in the reverse order fail: {type(e).__name__}: {str(e)[:150]}", case=scen.summarize(sc))
            perm, dict_order, capital_perm = permuted_twin(sc, rng)
            try:
                twin, model = run_permuted(sc, perm, dict_order, capital_perm, rng.randrange(1 << 30))
            except Exception as e:
                viol(res, "C15", f"permuted inputs fail: {type(e).__name__}: {str(e)[:150]}", case=scen.summarize(sc))
                continue
            res["steps"] += base.get("n", 0) if "error" not in base else 0
            res["paired_runs"] += 1
            res["nontrivial"] += 1
            if len(res["samples"]) < 2:
                res["samples"].append({"scenario": scen.summarize(sc), "perm": perm})
            for v in paired.cmp_records("C15", base, twin, "labelled inputs given in another order (bitwise)"):
                res["violations"].append({"violation": v, "scenario": sc, "perm": perm})
            # the table stored sector-major (reg1/a, reg2/a, ..., reg1/b, ...): regions and sectors each appear in
            # alphabetical order, the industries do not
            m_, n_, k_ = sc["table"]["m"], sc["table"]["n"], sc["table"]["k"]
            if m_ > 1 and n_ > 1:
                sm = [r * n_ + s_ for s_ in range(n_) for r in range(m_)]
                perm2 = {"rows": sm, "cols": sm, "ycols": [r * k_ + c_ for c_ in range(k_) for r in range(m_)]}
                try:
                    twin2, _m2 = run_permuted(sc, perm2, dict_order, capital_perm, rng.randrange(1 << 30))
                    res["paired_runs"] += 1
                    for v in paired.cmp_records("C15", base, twin2, "table stored sector-major (bitwise)"):
                        res["violations"].append({"violation": v, "scenario": sc, "perm": perm2})
                except Exception as e:
                    viol(res, "C15", f"sector-major table fails: {type(e).__name__}: {str(e)[:150]}", case=scen.summarize(sc))
            if "error" not in base and base["columns"] != sorted(base["columns"]):
                viol(res, "C15", "industries not reported in lexicographic (region, sector) order")
            # ingestion obligations: the canonical model arrays are those of the canonically ordered input, exactly
            res["corr_obligations"] += 1
            ref = scen.build_model(sc["table"], sc["model"])
            same = all(np.array_equal(np.asarray(getattr(model, a), dtype=float), np.asarray(getattr(ref, a), dtype=float), equal_nan=True)
                       for a in ("Z_0", "Y_0", "X_0", "tech_mat", "inv_duration", "inputs_stock_0", "Z_distrib")) and np.array_equal(
                np.asarray(model.productive_capital, dtype=float).ravel(), np.asarray(ref.productive_capital, dtype=float).ravel())
            # dictionaries through the model's `canon`
            cfg = sc["model"]
            regs, secs, cats = scen.labels(sc["table"])
            for nm, dct, attr in (("inventory_dict", cfg.get("inventory_dict"), None),
                                  ("capital", cfg["capital"]["values"] if cfg["capital"]["kind"] == "dict" else None, "capital_to_VA_ratio")):
                if not isinstance(dct, dict) or attr is None:
                    continue
                keys = list(dct.keys())
                random.Random(dict_order).shuffle(keys)
                ans = dr.ask({"op": "canon", "l": [[sorted(secs).index(kk), q(float(dct[kk]))] for kk in keys]})
                want = np.tile(np.array([unq(v) for v in ans["values"]]), sc["table"]["m"])
                if not np.array_equal(np.asarray(getattr(model, attr), dtype=float), want):
                    same = False
            if same:
                res["corr_ok"] += 1
            elif len(res["mismatches"]) < 20:
                res["mismatches"].append({"phase": "ingestion", "what": "arrays ingested from permuted inputs differ from the canonical arrays",
                                          "scenario_seed": sc["seed"]})
        # event constructors: lists of affected labels and weight Series given in another order
        m = 30 if tier != "thorough" else 400
        for i in range(m):
            rng = random.Random(seed * 104729 + i)
            case = gen_c12_case(rng)
            if case["bad"] is not None:
                continue
            twin = copy.deepcopy(case)
            for key in ("aff", "regs", "secs", "weights", "wr", "ws", "series"):
                if twin.get(key):
                    rng.shuffle(twin[key])
            canon = copy.deepcopy(case)
            for key in ("aff", "regs", "secs", "weights", "wr", "ws", "series"):
                if canon.get(key):
                    canon[key] = sorted(canon[key], key=lambda x: json.dumps(x))
            a, b = run_c12_impl(canon), run_c12_impl(twin)
            res["scenarios"] += 1
            res["steps"] += 1
            res["paired_runs"] += 1
            if twin != canon:
                res["nontrivial"] += 1
            bump(res, f"constructor/{case['kind']}/{case.get('wmode', '-')}")
            if a["out"] != b["out"]:
                viol(res, "C15", f"event constructor ({case['kind']}): accepted or rejected depending on the order of the labelled inputs",
                     case={"canonical": canon, "permuted": twin}, a=a, b=b)
            elif a["out"] == "ok":
                if a["impact"] != b["impact"] or a["aff"] != b["aff"]:
                    viol(res, "C15", f"event constructor ({case['kind']}): per-industry impact depends on the order in which affected labels / weights are given (not bit-identical)",
                         case={"canonical": canon, "permuted": twin}, a=a["impact"], b=b["impact"])
                elif b["order"] != sorted(b["order"]):
                    viol(res, "C15", f"event constructor ({case['kind']}): impact not reported in lexicographic (region, sector) order",
                         case={"canonical": canon, "permuted": twin}, order=b["order"])
    finally:
        dr.close()
    return res


# ====================================================================== C16: records

REC_NAMES = ["production_realised", "production_capacity", "final_demand", "intermediate_demand", "rebuild_demand",
             "overproduction", "final_demand_unmet", "rebuild_prod", "inputs_stocks", "limiting_inputs",
             "productive_capital_to_recover"]
PHASE_OF = {"inputs_stocks": "events", "overproduction": "overprod", "rebuild_demand": "overprod", "final_demand": "overprod",
            "intermediate_demand": "overprod", "limiting_inputs": "production", "production_realised": "production",
            "production_capacity": "production", "productive_capital_to_recover": "production",
            "final_demand_unmet": "distribution", "rebuild_prod": "distribution"}


def fresh_rows(tr):
    """the four records that are row sums of a matrix, recomputed from the matrix itself (not from the model's cached
    totals): {record: {t: vector}}"""
    out = {r: {} for r in ("rebuild_demand", "final_demand", "intermediate_demand", "rebuild_prod")}

    def rs(mat, n):
        if mat is None or not np.size(mat):
            return np.zeros(n)
        return np.asarray(mat, dtype=float).reshape(n, -1).sum(axis=1)
    for st in tr.steps:
        t = st["t"]
        ph = st["phases"]
        e_prod = ph.get("production")
        if e_prod and e_prod["pre"] is not None:
            e = e_prod["pre"]["econ"]
            n = e["prod"].shape[0]
            out["rebuild_demand"][t] = rs(e["reb"], n)
            out["final_demand"][t] = rs(e["fd"], n)
            out["intermediate_demand"][t] = rs(e["orders"], n)
        d = ph.get("distribute")
        if d and d["post"] is not None and not d.get("exc"):
            e = d["post"]["econ"]
            out["rebuild_prod"][t] = rs(e["rebProd"], e["prod"].shape[0])
    return out


def records_match_trace(tr, pid, names):
    """what the simulation reports (public record accessors, in memory) is the model's value at the phase of each
    simulated step — for the records a property is about"""
    from harness.oracles import viol as oviol
    out = []
    sim = getattr(tr, "sim", None)
    if sim is None or not tr.steps:
        return out
    exp, fresh = expected_rows(tr), fresh_rows(tr)
    for r in names:
        try:
            arr = getattr(sim, r).to_numpy(dtype=float)
        except Exception as e:
            out.append(oviol(pid, 0, f"record {r} cannot be read: {type(e).__name__}: {str(e)[:100]}"))
            continue
        src = fresh[r] if r in fresh else exp[r]
        for t, want in src.items():
            if want is None or t >= arr.shape[0]:
                continue
            w = np.asarray(want, dtype=float).ravel()
            row = arr[t].ravel()
            if row.shape != w.shape:
                continue
            sc_ = float(np.nanmax(np.abs(w))) if w.size and np.isfinite(w).any() else 0.0
            ok = np.allclose(row, w, rtol=1e-12, atol=1e-12 * sc_ + 1e-300, equal_nan=True)
            if not ok:
                j = int(np.nanargmax(np.abs(np.where(np.isfinite(row - w), row - w, np.inf))))
                out.append(oviol(pid, int(t), f"record {r}: the value reported for step {t} is not the model's value at that step",
                                 cell=j, reported=float(row[j]), model=float(w[j])))
                break
    return out


def expected_rows(tr):
    """value of every record at its phase of every simulated step, from the captured phase snapshots"""
    out = {r: {} for r in REC_NAMES}
    for st in tr.steps:
        t = st["t"]
        ph = st["phases"]
        pre_ev = ph.get("events_pre")
        if pre_ev and pre_ev["post"] is not None and not pre_ev.get("exc"):
            out["inputs_stocks"][t] = pre_ev["post"]["econ"]["stock"]
        e_prod = ph.get("production")
        if e_prod and e_prod["pre"] is not None:
            e = e_prod["pre"]["econ"]          # after overproduction, before production
            out["overproduction"][t] = e["alpha"]
            out["rebuild_demand"][t] = e["rebTot"] if e["rebTot"] is not None and e["rebTot"].size else np.zeros(e["prod"].shape)
            out["final_demand"][t] = e["fdTot"]
            out["intermediate_demand"][t] = e["ordersTot"]
        if e_prod and e_prod["post"] is not None and not e_prod.get("exc"):
            e = e_prod["post"]["econ"]
            out["production_realised"][t] = e["prod"]
            out["limiting_inputs"][t] = np.asarray(e_prod.get("ret"), dtype=float)
            out["production_capacity"][t] = tr.model.X_0 * (1 - (e["deltaTot"] if e["deltaTot"] is not None else 0)) * e["alpha"]
            out["productive_capital_to_recover"][t] = e["lost"] if e["lost"] is not None else None
        d = ph.get("distribute")
        if d and d["post"] is not None and not d.get("exc"):
            e = d["post"]["econ"]
            out["final_demand_unmet"][t] = e["fdUnmet"]
            out["rebuild_prod"][t] = e["rebProdTot"] if e["rebProdTot"] is not None and e["rebProdTot"].size else np.zeros(e["prod"].shape)
    return out


def explore_c16(tier, seed):
    res = new_result("C16")
    res["rule"] = ("scenarios x subsets of saved records x register_stocks x driving mode (loop / manual stepping) x stopping point (end, early "
                   "manual stop, crash flag, exception); one evaluation = one record of one run compared row by row with the captured phase "
                   "values; non-trivial = a tracked record with at least one simulated row")
    run_corpus("C16", res)
    n = 10 if tier != "thorough" else 80
    dr = Driver()
    try:
        for i in range(n):
            s = seed * 1000003 + i
            rng = random.Random(s)
            stream = rng.choice(["shocked", "shocked", "crash", "excess", "eventfree", "multi", "finishing"])
            from harness import runner
            sc = runner.gen_for(stream, s)
            sc["T"] = rng.choice([6, 10])
            for ev in sc["events"]:
                ev["occ"] = min(ev["occ"], max(1, sc["T"] - 2))
                ev["dur"] = max(1, min(ev["dur"], sc["T"] - ev["occ"]))
            if known.match_scenario("C16", sc):
                continue
            saved = [r for r in REC_NAMES if rng.random() < 0.4]
            reg = rng.random() < 0.5
            if not reg and "inputs_stocks" in saved:
                saved.remove("inputs_stocks")
            manual = rng.random() < 0.5
            stop_early = rng.choice([None, None, rng.randint(1, sc["T"] - 1)])
            outdir = tempfile.mkdtemp(prefix="verif_c16_")
            try:
                sc2 = copy.deepcopy(sc)
                sc2["sim"].update({"register_stocks": reg, "save_records": saved})
                if i == 0:
                    # a simulation that saves "all" records without registering stocks exists in the process
                    try:
                        _other = Simulation(scen.build_model(sc["table"], sc["model"]), n_temporal_units_to_sim=sc["T"],
                                            save_records="all", register_stocks=False, boario_output_dir=tempfile.mkdtemp(prefix="verif_c16o_"))
                        del _other
                    except Exception:
                        pass
                try:
                    sim = scen.build_sim(sc2, outdir=outdir)
                except Exception as e:
                    bump(res, "build_error")
                    viol(res, "C16", f"a simulation with register_stocks={reg}, save_records={saved} cannot be built: {type(e).__name__}: {str(e)[:120]}",
                         case={"saved": saved, "stocks": reg})
                    continue
                res["scenarios"] += 1
                bump(res, f"{stream}/{'manual' if manual else 'loop'}/saved={len(saved)}/stocks={reg}/stop={stop_early}")
                # what an accessor returns is the user's own snapshot: it does not change when later steps are written, and
                # editing it in place does not edit the record (in memory or in its file)
                if i % 2 == 0 and sc["T"] // int(sc["model"]["dt"]) >= 4:
                    od2 = tempfile.mkdtemp(prefix="verif_c16v_")
                    try:
                        simv = scen.build_sim(sc2, outdir=od2)

                        def _adv(k_):
                            for _ in range(k_):
                                try:
                                    if simv.next_step() == 1:
                                        return
                                except Exception:
                                    return          # (scenarios of this stream may stop on a reported error)
                        _adv(2)
                        names_v = [r for r in ("production_realised", "final_demand_unmet", "production_capacity", "limiting_inputs") ]
                        frames = {r: getattr(simv, r) for r in names_v}
                        snaps_v = {r: frames[r].to_numpy().copy() for r in names_v}
                        _adv(2)
                        for r in names_v:
                            if not np.array_equal(frames[r].to_numpy(), snaps_v[r], equal_nan=True):
                                viol(res, "C16", f"the frame returned by the accessor of {r} changed by itself when later steps were simulated "
                                                 f"({'file' if r in saved else 'memory'} record)", case={"saved": saved})
                        before_v = {r: getattr(simv, r).to_numpy().copy() for r in names_v}
                        for r in names_v:
                            fr = getattr(simv, r)
                            try:
                                fr.iloc[0, 0] = 12345 if r != "limiting_inputs" else 1
                                fr.iloc[-1, -1] = 12345 if r != "limiting_inputs" else 1
                            except Exception:
                                continue          # (a read-only frame is fine too)
                        for r in names_v:
                            if not np.array_equal(getattr(simv, r).to_numpy(), before_v[r], equal_nan=True):
                                viol(res, "C16", f"editing the frame returned by the accessor of {r} in place changed the record "
                                                 f"({'file' if r in saved else 'memory'} record)", case={"saved": saved})
                    except Exception as e:
                        viol(res, "C16", f"accessor snapshot sequence fails: {type(e).__name__}: {str(e)[:120]}", case={"saved": saved})
                    finally:
                        shutil.rmtree(od2, ignore_errors=True)
                if rng.random() < 0.5:
                    # looking at a record before / during the run must not change what is seen afterwards
                    _ = sim.production_realised, sim.limiting_inputs
                    if reg:
                        _ = sim.inputs_stocks
                if manual:
                    tr = capture.run(sc2, sim=sim, max_steps=stop_early)
                    sim._flush_memmaps() if sim._files_to_record else None
                else:
                    # loop(): wrap and capture through the same instrumentation by stepping inside loop
                    tr = capture.run(sc2, sim=sim)       # identical driving: next_step() until the end / crash
                    if sim._files_to_record:
                        sim._flush_memmaps()
                exp = expected_rows(tr)
                fresh = fresh_rows(tr)
                k = len([st for st in tr.steps if st["res"] == 0])
                ends = ["ok"] * k
                if tr.crashed:
                    ends.append("crash")
                elif tr.step_error:
                    # which phase raised
                    last = tr.steps[-1]["phases"]
                    if last.get("events_pre", {}).get("exc"):
                        ends.append("exc:events")
                    elif "production" in last and last["production"].get("exc"):
                        ends.append("exc:production")
                    elif "overprod" in last and last["overprod"].get("exc"):
                        ends.append("exc:overprod")
                    else:
                        ends.append("exc:distribution")
                ans = dr.ask({"op": "records", "saved": saved, "registerStocks": reg, "ends": ends, "T": sc["T"], "dt": int(sc["model"]["dt"])})
                res["corr_obligations"] += 1
                ok_pattern = True
                T = sc["T"]
                for r in REC_NAMES:
                    if r == "inputs_stocks" and not reg:
                        if getattr(sim, "_inputs_evolution").size != 0:
                            viol(res, "C16", "stocks record exists although register_stocks is False")
                        continue
                    res["steps"] += 1
                    attr = {"production_realised": "_production_evolution", "production_capacity": "_production_cap_evolution",
                            "final_demand": "_final_demand_evolution", "intermediate_demand": "_io_demand_evolution",
                            "rebuild_demand": "_rebuild_demand_evolution", "overproduction": "_overproduction_evolution",
                            "final_demand_unmet": "_final_demand_unmet_evolution", "rebuild_prod": "_rebuild_production_evolution",
                            "inputs_stocks": "_inputs_evolution", "limiting_inputs": "_limiting_inputs_evolution",
                            "productive_capital_to_recover": "_regional_sectoral_productive_capital_destroyed_evolution"}[r]
                    arr = np.asarray(getattr(sim, attr))
                    if arr.ndim == 0 or arr.shape[0] < T:
                        ok_pattern = False
                        viol(res, "C16", f"record {r} was not allocated for the {T} temporal units of the run (shape {arr.shape}) although it is tracked "
                                         f"(register_stocks={reg}, saved={r in saved})", case={"saved": saved, "stocks": reg})
                        continue
                    fill_is = (lambda row: bool(np.all(row == -1))) if r == "limiting_inputs" else (lambda row: bool(np.all(np.isnan(row))))
                    written_model = set(ans["written"][r])
                    any_row = False
                    for t in range(T):
                        row = arr[t]
                        want = exp[r].get(t)
                        if t in written_model:
                            any_row = True
                            if want is None or fill_is(row) and not fill_is(np.asarray(want, dtype=float)):
                                ok_pattern = False
                                viol(res, "C16", f"row {t} of record {r} was not written (fill value) although step {t} was simulated", case={"saved": saved, "stocks": reg, "ends": ends})
                                break
                            w = np.asarray(want, dtype=float).reshape(row.shape)
                            if r == "limiting_inputs":
                                same = np.array_equal(row.astype(float), w)
                            else:
                                same = np.array_equal(row, w, equal_nan=True)
                            if same and r in fresh and t in fresh[r]:
                                # ... and that value is the row sum of the matrix it summarises (not only the model's cached total)
                                wf = np.asarray(fresh[r][t], dtype=float).reshape(row.shape)
                                scf = float(np.max(np.abs(wf))) if wf.size else 0.0
                                same = bool(np.allclose(row, wf, rtol=1e-12, atol=1e-12 * scf + 1e-300))
                            if not same:
                                viol(res, "C16", f"row {t} of record {r} differs from the model's value at its phase of step {t}",
                                     case={"saved": saved, "stocks": reg, "ends": ends}, got=row.ravel()[:4].tolist(), want=w.ravel()[:4].tolist())
                                break
                        else:
                            if not fill_is(row):
                                ok_pattern = False
                                viol(res, "C16", f"row {t} of record {r} holds a value although that step was not simulated (expected the fill value)",
                                     case={"saved": saved, "stocks": reg, "ends": ends})
                                break
                    if any_row:
                        res["nontrivial"] += 1
                    # file vs memory
                    if r in saved:
                        fpath = Path(outdir) / "records" / r
                        dtype = "byte" if r == "limiting_inputs" else "float64"
                        if not fpath.exists():
                            viol(res, "C16", f"saved record {r} has no file")
                        else:
                            back = np.memmap(fpath, dtype=dtype, mode="r", shape=arr.shape)
                            if not np.array_equal(np.asarray(back), arr, equal_nan=(dtype != "byte")):
                                viol(res, "C16", f"file of record {r} read back with the documented dtype and shape differs from the in-memory data")
                            del back
                    # accessor returns a copy as DataFrame in lexicographic order, showing the current data
                    df = getattr(sim, r)
                    if not np.array_equal(df.to_numpy(dtype=float).reshape(arr.shape), arr.astype(float), equal_nan=True):
                        viol(res, "C16", f"accessor of record {r} does not show the recorded data")
                    if list(df.columns) != sorted(df.columns):
                        viol(res, "C16", f"record {r} columns not in lexicographic order")
                if ok_pattern:
                    res["corr_ok"] += 1
                else:
                    res["mismatches"].append({"phase": "records", "what": "pattern of written / fill rows differs from the record-layer model",
                                              "ends": ends, "saved": saved, "stocks": reg})
                if len(res["samples"]) < 2:
                    res["samples"].append({"scenario": scen.summarize(sc), "saved": saved, "register_stocks": reg, "manual": manual, "ends": ends})
            except Exception as e:
                # running a valid scenario and reading its records back must not raise
                viol(res, "C16", f"exception while running / reading back the records (register_stocks={reg}, saved={saved}): {type(e).__name__}: {str(e)[:160]}",
                     case={"saved": saved, "stocks": reg, "scenario": scen.summarize(sc)})
            finally:
                try:
                    del sim
                except Exception:
                    pass
                shutil.rmtree(outdir, ignore_errors=True)
        # loop() twin and JSON artefacts
        c16_loop_and_json(res, seed, tier)
    finally:
        dr.close()
    return res


def c16_loop_and_json(res, seed, tier):
    n = 6 if tier != "thorough" else 40
    for i in range(n + 1):
        s = seed * 1000003 + 500 + i
        rng = random.Random(s)
        if i == n:
            # one long run (beyond the periodic equilibrium checks of loop(), every 182 temporal units): the loop must
            # cover the whole horizon exactly as manual stepping does
            # (event-free: the economy is at its initial state at every periodic check)
            sc = scen.gen_scenario(s, "eventfree", T=800, m=1, n=2, k=1)
            sc["model"]["dt"] = rng.choice([1, 1, 2])
            sc["model"]["alpha_tau"] = max(sc["model"]["alpha_tau"], sc["model"]["dt"])
            if isinstance(sc["model"].get("restoration_tau"), int):
                sc["model"]["restoration_tau"] = max(sc["model"]["restoration_tau"], sc["model"]["dt"])
            elif isinstance(sc["model"].get("restoration_tau"), dict):
                sc["model"]["restoration_tau"] = {k_: max(v_, sc["model"]["dt"]) for k_, v_ in sc["model"]["restoration_tau"].items()}
            sc["T"] = 800
        else:
            sc = scen.gen_scenario(s, rng.choice(["shocked", "crash"]), T=rng.choice([6, 10]), max_occ=3)
        if known.match_scenario("C16", sc):
            continue
        # an output directory given relative to the working directory, which changes between construction and the run: records
        # and JSON artefacts stay together, where the simulation says they are
        if i % 3 == 0:
            cwd0 = os.getcwd()
            dA, dB = tempfile.mkdtemp(prefix="verif_c16a_"), tempfile.mkdtemp(prefix="verif_c16b_")
            try:
                os.chdir(dA)
                simR = Simulation(scen.build_model(sc["table"], sc["model"]), n_temporal_units_to_sim=min(sc["T"], 4 * int(sc["model"]["dt"])),
                                  save_records=["production_realised"], save_params=True, save_index=True, boario_output_dir="out")
                os.chdir(dB)
                quiet_loop(simR)
                os.chdir(cwd0)
                recf = Path(simR.records_storage) / "production_realised"
                if not Path(simR.records_storage).is_absolute():
                    recf = Path(dB) / recf          # (what a reader in the current directory of the run would open)
                here = [p_ for p_ in Path(dB).rglob("*") if p_.is_file()]
                if here:
                    viol(res, "C16", f"relative output directory: files written under the directory of the run instead of beside the records: {[p_.name for p_ in here][:4]}")
                jj = list(Path(dA).rglob("simulated_params.json"))
                rr = list(Path(dA).rglob("production_realised"))
                if not jj or not rr or jj[0].parent.parent != rr[0].parent.parent:
                    viol(res, "C16", "relative output directory: the JSON artefacts are not beside the records they describe",
                         jsons=[str(x) for x in jj][:2], records=[str(x) for x in rr][:2])
            except Exception as e:
                viol(res, "C16", f"relative output directory with a change of working directory fails: {type(e).__name__}: {str(e)[:120]}")
            finally:
                os.chdir(cwd0)
                shutil.rmtree(dA, ignore_errors=True)
                shutil.rmtree(dB, ignore_errors=True)
        # a run that only asks for the parameters file (no record, no events file): the artefact is written
        od_p = tempfile.mkdtemp(prefix="verif_c16p_")
        try:
            simP = Simulation(scen.build_model(sc["table"], sc["model"]), n_temporal_units_to_sim=min(sc["T"], 6 * int(sc["model"]["dt"])),
                              save_params=True, boario_output_dir=od_p)
            try:
                quiet_loop(simP)
                found = list(Path(od_p).rglob("simulated_params.json"))
                if not found:
                    viol(res, "C16", "save_params=True: no simulated_params.json was written")
            except Exception as e:
                cause = getattr(e, "__cause__", None) or e
                viol(res, "C16", f"a run with save_params=True only fails after its last step: {type(cause).__name__}: {str(cause)[:120]}")
        except Exception:
            pass
        finally:
            shutil.rmtree(od_p, ignore_errors=True)
        # an event rescheduled through its public setters before it is registered: the events file describes the event simulated
        if sc["events"]:
            od_e = tempfile.mkdtemp(prefix="verif_c16e_")
            try:
                e0 = copy.deepcopy(sc["events"][0])
                evo = scen.build_event(e0)
                new_occ = int(e0["occ"]) + 1 if int(e0["occ"]) + 1 + int(e0["dur"]) <= sc["T"] else int(e0["occ"])
                evo.occurrence = new_occ
                simE = Simulation(scen.build_model(sc["table"], sc["model"]), n_temporal_units_to_sim=sc["T"], save_events=True, boario_output_dir=od_e)
                simE.add_event(evo)
                quiet_loop(simE)
                fe = list(Path(od_e).rglob("simulated_events.json"))
                if fe:
                    got_occ = json.loads(fe[0].read_text())[0].get("occurrence")
                    if got_occ != new_occ:
                        viol(res, "C16", f"saved events: occurrence {got_occ!r}, the event simulated has occurrence {new_occ} (set through Event.occurrence)")
            except Exception:
                pass
            finally:
                shutil.rmtree(od_e, ignore_errors=True)
        outdir = tempfile.mkdtemp(prefix="verif_c16j_")
        try:
            sc2 = copy.deepcopy(sc)
            sc2["sim"].update({"register_stocks": True, "save_records": list(REC_NAMES)})
            try:
                simL = scen.build_sim(sc2, outdir=outdir)
                quiet_loop(simL)
            except Exception:
                continue
            sc3 = copy.deepcopy(sc)
            sc3["sim"].update({"register_stocks": True})
            simM = scen.build_sim(sc3)
            for _ in range(0, sc["T"], int(sc["model"]["dt"])):
                try:
                    r_ = simM.next_step()
                except Exception:
                    break
                if r_ == 1:
                    break
            res["paired_runs"] += 1
            for r in REC_NAMES:
                a = getattr(simL, r).to_numpy(dtype=float)
                b = getattr(simM, r).to_numpy(dtype=float)
                if not np.array_equal(a, b, equal_nan=True):
                    viol(res, "C16", f"record {r}: loop() with all records saved to files differs from manual stepping with records in memory",
                         case={"scenario": scen.summarize(sc)})
            if int(simL.n_temporal_units_simulated) != int(simM.current_temporal_unit):
                viol(res, "C16", f"loop() simulated {int(simL.n_temporal_units_simulated)} temporal units, manual stepping over the same horizon {int(simM.current_temporal_unit)}",
                     case={"scenario": scen.summarize(sc)})
            jd = Path(outdir) / "jsons"
            try:
                params = json.loads((jd / "simulated_params.json").read_text())
                events = json.loads((jd / "simulated_events.json").read_text())
                index = json.loads((jd / "indexes.json").read_text())
            except Exception as e:
                viol(res, "C16", f"JSON artefacts missing or unreadable: {type(e).__name__}: {e}")
                continue
            cfg = sc["model"]
            m = simL.model
            checks = {
                "n_temporal_units_to_sim": sc["T"], "order_type": cfg["order_type"], "alpha_base": cfg["alpha_base"],
                "alpha_max": cfg["alpha_max"], "alpha_tau": cfg["alpha_tau"], "rebuild_tau": cfg["rebuild_tau"],
                "n_temporal_units_by_step": cfg["dt"], "year_to_temporal_unit_factor": cfg["year_factor"],
                "model_type": "ARIOPsiModel" if cfg["class"] == "psi" else "ARIOBaseModel",
                "n_temporal_units_simulated": int(simL.n_temporal_units_simulated), "has_crashed": bool(simL.has_crashed),
            }
            if cfg["class"] == "psi":
                checks["psi_param"] = float(cfg.get("psi", 0.8)) if not isinstance(cfg.get("psi"), str) else float(cfg["psi"].replace("_", "."))
            for kk, want in checks.items():
                got = params.get(kk)
                if isinstance(want, float) or isinstance(got, float):
                    ok = got is not None and abs(float(got) - float(want)) <= 1e-9 * max(1.0, abs(float(want)))
                else:
                    ok = got == want
                if not ok:
                    viol(res, "C16", f"saved parameters do not describe the run: {kk} = {got!r}, run used {want!r}")
            if cfg["class"] == "psi":
                rt = cfg.get("restoration_tau", 60)
                want_rt = [float(rt[s_]) for s_ in sorted(rt)] if isinstance(rt, dict) else [float(rt)] * len(m.sectors)
                got_rt = params.get("inventory_restoration_tau")
                try:
                    ok_rt = got_rt is not None and len(got_rt) == len(want_rt) and all(
                        abs(float(g) - w) <= 1e-9 * max(1.0, abs(w)) for g, w in zip(got_rt, want_rt))
                except Exception:
                    ok_rt = False
                if not ok_rt:
                    viol(res, "C16", f"saved parameters do not describe the run: inventory_restoration_tau = {got_rt!r}, run used {want_rt!r} "
                                     f"(step length {cfg['dt']})")
            if len(events) != len(sc["events"]) or any(e["occurrence"] != s_["occ"] or e["duration"] != s_["dur"] for e, s_ in zip(events, sc["events"])):
                viol(res, "C16", "saved events do not describe the events of the run")
            else:
                for e, s_ in zip(events, sc["events"]):
                    regs_e = sorted({kk.split("|")[0] for kk, v_ in s_["impact"].items() if v_ != 0})
                    secs_e = sorted({kk.split("|")[1] for kk, v_ in s_["impact"].items() if v_ != 0})
                    tot_e = float(sum(s_["impact"].values()))
                    if sorted(e.get("aff_regions", [])) != regs_e or sorted(e.get("aff_sectors", [])) != secs_e:
                        viol(res, "C16", f"saved events: affected regions / sectors {e.get('aff_regions')} / {e.get('aff_sectors')} are not those of the event ({regs_e} / {secs_e})")
                    elif abs(float(e.get("impact", float("nan"))) - tot_e) > 1e-9 * max(abs(tot_e), 1e-300):
                        viol(res, "C16", f"saved events: total impact {e.get('impact')!r}, the event's impacts add up to {tot_e!r}")
                    if s_["type"] == "rebuild" and "rebuilding_sectors" in e:
                        want_rs = {kk: float(v_) for kk, v_ in s_["reb_sectors"].items()}
                        got_rs = {kk: float(v_) for kk, v_ in e["rebuilding_sectors"].items()}
                        if set(want_rs) != set(got_rs) or any(abs(want_rs[kk] - got_rs[kk]) > 1e-12 for kk in want_rs):
                            viol(res, "C16", f"saved events: rebuilding sectors {got_rs}, the event declared {want_rs}")
            if index.get("regions") != list(m.regions) or index.get("sectors") != list(m.sectors) or index.get("n_industries") != m.n_sectors * m.n_regions:
                viol(res, "C16", "saved indexes do not describe the model")
        finally:
            shutil.rmtree(outdir, ignore_errors=True)


# ====================================================================== C17


def deep_snapshot(obj):
    if isinstance(obj, (pd.DataFrame, pd.Series)):
        return ("pd", obj.copy(deep=True), list(obj.index.names), list(getattr(obj, "columns", pd.Index([])).names) if isinstance(obj, pd.DataFrame) else None)
    if isinstance(obj, np.ndarray):
        return ("np", obj.copy())
    return ("py", copy.deepcopy(obj))


def same_snapshot(snap, obj):
    kind = snap[0]
    if kind == "pd":
        try:
            if isinstance(obj, pd.DataFrame):
                pd.testing.assert_frame_equal(snap[1], obj, check_exact=True)
                return list(obj.index.names) == snap[2] and list(obj.columns.names) == snap[3]
            pd.testing.assert_series_equal(snap[1], obj, check_exact=True)
            return list(obj.index.names) == snap[2]
        except AssertionError:
            return False
    if kind == "np":
        return np.array_equal(snap[1], obj, equal_nan=True)
    return snap[1] == obj


def explore_c17(tier, seed):
    res = new_result("C17")
    res["rule"] = ("(a) every scenario run twice; (b) random histories of construct / step / read over up to three live simulations with default "
                   "output directories and saved records, each compared bit for bit with its isolated run; (c) deep snapshots of every "
                   "caller-owned object before and after building and running; (d) one Event object used in two simulations; "
                   "non-trivial = history with at least two simulations alive")
    run_corpus("C17", res)
    n = 8 if tier != "thorough" else 60
    for i in range(n):
        s = seed * 1000003 + i
        rng = random.Random(s)
        scs = []
        for j in range(rng.choice([2, 3])):
            if j == 0:
                sc = scen.gen_scenario(s * 10 + j, "shocked", T=rng.choice([6, 8]), max_occ=3, nev=3, types=["rebuild", "recovery", "arbitrary"])
            else:
                sc = scen.gen_scenario(s * 10 + j, rng.choice(["shocked", "eventfree", "shocked"]), T=rng.choice([6, 8]), max_occ=3)
            if known.match_scenario("C17", sc):
                continue
            sc["sim"]["save_records"] = rng.choice([[], ["production_realised"], ["production_realised", "overproduction", "final_demand_unmet"], "all"])
            sc["sim"]["register_stocks"] = rng.random() < 0.4
            scs.append(sc)
        if len(scs) < 2:
            continue
        res["scenarios"] += 1
        # class-level state of Simulation (the lists of possible records and their file specifications are shared by
        # every instance): nothing a simulation does may change it
        cls_before = {k: copy.deepcopy(v) for k, v in vars(Simulation).items() if isinstance(v, (list, dict, set))}
        # partial runs (fewer steps than the horizon): never-simulated rows are part of the results too
        part = []
        for _rep in range(2):
            simp = scen.build_sim(copy.deepcopy(scs[0]))
            for _ in range(max(1, scs[0]["T"] // 2)):
                try:
                    if simp.next_step() == 1:
                        break
                except Exception:
                    break
            part.append({r: getattr(simp, r).to_numpy(dtype=float).copy() for r in paired.RECORDS})
            junk = [scen.build_sim(copy.deepcopy(sc_)) for sc_ in scs[1:]]   # other simulations created in between
            for j_ in junk:
                try:
                    quiet_loop(j_)
                except Exception:
                    pass
            del junk
        for r in paired.RECORDS:
            if not np.array_equal(part[0][r], part[1][r], equal_nan=True):
                viol(res, "C17", f"the same partial run gives different records ({r}) depending on what else ran in the process")
                break
        # the same run with NaN blocks left in the allocator between the steps (an uninitialised array would pick them up);
        # one of the scenarios gets a table with structurally missing inputs, where the masked divisions leave cells untouched
        _sp = copy.deepcopy(scs[0])
        _t0 = scs[0]["table"]
        if _t0.get("kind") == "dense" and not _t0.get("labels"):
            _sp["table"] = scen.gen_table(random.Random(s + 77), m=_t0["m"], n=_t0["n"], k=_t0["k"], kind="sparse", scale=_t0["scale"])
        for _sc in [_sp] + scs[1:]:
            res["paired_runs"] += 1
            for v in paired.poisoned_memory(_sc, None, s, pid="C17"):
                res["violations"].append({"violation": v, "scenario": _sc})
        # the caller's table object used for a model, edited, and used again
        for v in paired.table_reuse(scs[0], None, s, pid="C17"):
            res["paired_runs"] += 1
            res["violations"].append({"violation": v, "scenario": scs[0]})
        # the caller's list of events given to the constructor stays the caller's: adding an event to the simulation does
        # not change it, and a second simulation given the same list tracks exactly its events
        try:
            _evs = [scen.build_event(e) for e in scs[0]["events"]]
            if len(_evs) >= 2:
                _lst = _evs[:-1]
                _ids = [id(x) for x in _lst]
                _s1 = Simulation(scen.build_model(scs[0]["table"], scs[0]["model"]), events_list=_lst, n_temporal_units_to_sim=scs[0]["T"])
                _s1.add_event(_evs[-1])
                if [id(x) for x in _lst] != _ids:
                    viol(res, "C17", "the caller's list of events (events_list) was modified by add_event", case=scen.summarize(scs[0]))
                _s2 = Simulation(scen.build_model(scs[0]["table"], scs[0]["model"]), events_list=_lst, n_temporal_units_to_sim=scs[0]["T"])
                if len(_s2.all_events) != len(_ids) or len(_s2._event_tracking) != len(_ids):
                    viol(res, "C17", "a second simulation given the same events_list does not hold exactly its events",
                         case=scen.summarize(scs[0]), held=len(_s2.all_events), tracked=len(_s2._event_tracking), given=len(_ids))
                if len(_s1.all_events) != len(_evs):
                    viol(res, "C17", "events of a simulation changed when another simulation was built from the same list", case=scen.summarize(scs[0]))
        except Exception as _e:
            viol(res, "C17", f"events_list / add_event sequence fails: {type(_e).__name__}: {str(_e)[:120]}", case=scen.summarize(scs[0]))
        # a simulation copied in the middle of its run, the run continued with the copy
        _b0 = paired.run_records(copy.deepcopy(scs[0]))
        for v in paired.copy_midrun(scs[0], _b0, 2 * s, pid="C17"):
            res["paired_runs"] += 1
            res["violations"].append({"violation": v, "scenario": scs[0]})
        # isolated references
        refs = [paired.run_records(copy.deepcopy(sc)) for sc in scs]
        again = [paired.run_records(copy.deepcopy(sc)) for sc in scs]
        for sc, a, b in zip(scs, refs, again):
            res["paired_runs"] += 1
            for v in paired.cmp_records("C17", a, b, "same inputs run twice"):
                res["violations"].append({"violation": v, "scenario": sc})
        # interleaved history, default output directories
        sims = [None] * len(scs)
        done = [0] * len(scs)
        hist = []
        ok_hist = True
        for step in range(200):
            alive = [j for j in range(len(scs)) if sims[j] is None or done[j] < scs[j]["T"]]
            if not alive:
                break
            j = rng.choice(alive)
            try:
                if sims[j] is None:
                    sims[j] = scen.build_sim(copy.deepcopy(scs[j]))
                    hist.append(("construct", j))
                else:
                    r_ = sims[j].next_step()
                    sims[j].n_temporal_units_simulated = sims[j].current_temporal_unit
                    done[j] += 1
                    hist.append(("step", j))
                    if r_ == 1:
                        sims[j].has_crashed = True
                        done[j] = scs[j]["T"]
            except Exception as e:
                done[j] = scs[j]["T"]
                hist.append(("raised", j))
        res["steps"] += len(hist)
        res["nontrivial"] += 1
        bump(res, f"history/{len(scs)}sims/{sum(1 for sc in scs if sc['sim']['save_records'])}saving")
        for j, (sc, ref) in enumerate(zip(scs, refs)):
            if sims[j] is None or "error" in ref:
                continue
            got = {r: getattr(sims[j], r).to_numpy(dtype=float) for r in paired.RECORDS}
            for r in paired.RECORDS:
                if not np.array_equal(got[r], ref[r], equal_nan=True):
                    res["violations"].append({"violation": {"property": "C17", "what": f"simulation {j} of an interleaved history: record {r} differs from its isolated run",
                                                            "history": hist[:40]}, "scenario": sc})
                    break
        if len(res["samples"]) < 2:
            res["samples"].append({"history": hist[:30], "scenarios": [scen.summarize(sc) for sc in scs]})
        # two simulations sharing one output directory under different result names, both saving records to files
        try:
            shared = tempfile.mkdtemp(prefix="verif_c17s_")
            recs = ["production_realised", "final_demand_unmet"]
            pair = []
            for nm, sc_ in (("runA", scs[0]), ("runB", scs[1])):
                mdl = scen.build_model(sc_["table"], sc_["model"])
                sm = Simulation(mdl, n_temporal_units_to_sim=sc_["T"], boario_output_dir=shared, results_dir_name=nm, save_records=list(recs))
                for e_ in sc_["events"]:
                    sm.add_event(scen.build_event(e_))
                pair.append(sm)
            try:
                quiet_loop(pair[0])
            except Exception:
                pass
            seen_a = {r: getattr(pair[0], r).to_numpy(dtype=float).copy() for r in recs}
            try:
                quiet_loop(pair[1])
            except Exception:
                pass
            res["paired_runs"] += 1
            for r in recs:
                now_a = getattr(pair[0], r).to_numpy(dtype=float)
                if not np.array_equal(seen_a[r], now_a, equal_nan=True):
                    viol(res, "C17", f"record {r} of a finished simulation changed when another simulation (same output directory, another results_dir_name) ran",
                         case={"records": recs})
                    break
            del pair
            shutil.rmtree(shared, ignore_errors=True)
        except Exception as e:
            viol(res, "C17", f"two simulations sharing an output directory under different result names cannot be built / run: {type(e).__name__}: {str(e)[:120]}")
        # the periodic equilibrium statuses (`sim.equi`, saved as jsons/equilibrium_checks.json) belong to each simulation:
        # a run long enough to be checked (every 182 temporal units), then another one whose status differs
        if i == 0:
            try:
                small = scen.gen_scenario(s + 5, "eventfree", T=190, m=1, n=2, k=1, labels="plain")
                small["model"]["dt"] = 1
                sim_a = scen.build_sim(copy.deepcopy(small))
                quiet_loop(sim_a)
                equi_a = copy.deepcopy(sim_a.equi)
                other = copy.deepcopy(small)
                other["events"] = [corpus.reb_event(small["table"], small["model"], inds=(("rA", "agri"),), frac=0.3, occ=170, dur=5, tau=60,
                                                    sectors={"build": 1.0})] if small["table"]["n"] >= 2 else []
                sim_b = scen.build_sim(other)
                quiet_loop(sim_b)
                res["paired_runs"] += 1
                if sim_a.equi != equi_a:
                    viol(res, "C17", "the equilibrium statuses reported by a finished simulation (sim.equi) changed when another simulation ran",
                         case={"before": str(equi_a)[:300], "after": str(sim_a.equi)[:300]})
                if sim_b.equi is sim_a.equi:
                    viol(res, "C17", "two simulations share one `equi` dictionary")
            except Exception as e:
                viol(res, "C17", f"equilibrium-status isolation check failed to run: {type(e).__name__}: {str(e)[:150]}")
        # stocks record of the simulations that registered it
        for j, sc in enumerate(scs):
            if sims[j] is not None and sc["sim"].get("register_stocks"):
                try:
                    _ = sims[j].inputs_stocks
                except Exception as e:
                    viol(res, "C17", f"simulation {j} registered its stocks but cannot show them after other simulations were created: {type(e).__name__}: {str(e)[:120]}",
                         case={"options": [sc_["sim"] for sc_ in scs]})
        cls_after = {k: v for k, v in vars(Simulation).items() if isinstance(v, (list, dict, set))}
        for k, v in cls_before.items():
            if cls_after.get(k) != v:
                viol(res, "C17", f"class-level attribute Simulation.{k} was changed by building / running simulations",
                     case={"before": str(v)[:200], "after": str(cls_after.get(k))[:200], "options": [sc_["sim"] for sc_ in scs]})
                setattr(Simulation, k, copy.deepcopy(v))        # restore so that the rest of the exploration is not polluted
        # a table that comes without technical coefficients (what pymrio leaves after an aggregation): refused or accepted, the
        # caller's object is left as it was
        try:
            _io_na = scen.build_table(scs[0]["table"])
            _io_na.A = None
            _sn_na = {nm: deep_snapshot(getattr(_io_na, nm)) for nm in ("Z", "Y", "x")}
            try:
                scen.build_model(scs[0]["table"], scs[0]["model"], io=_io_na)
            except Exception:
                pass
            if getattr(_io_na, "A", None) is not None:
                viol(res, "C17", "the caller's table was modified (it had no technical coefficients, it has some after the model was built)",
                     case=scen.summarize(scs[0]))
            for nm, sn in _sn_na.items():
                if not same_snapshot(sn, getattr(_io_na, nm)):
                    viol(res, "C17", f"the caller's table (given without A) was modified (mriot.{nm})", case=scen.summarize(scs[0]))
        except Exception as _e:
            viol(res, "C17", f"table-without-A sequence fails: {type(_e).__name__}: {str(_e)[:120]}", case=scen.summarize(scs[0]))
        # inputs untouched + event reuse
        sc = scs[0]
        _N = sc["table"]["m"] * sc["table"]["n"]
        _rp = random.Random(s + 7).sample(range(_N), _N)          # the caller's table lists its industries in any order
        io = scen.build_table(sc["table"], perm={"rows": _rp, "cols": _rp, "ycols": None})
        snaps = {nm: deep_snapshot(getattr(io, nm)) for nm in ("Z", "Y", "x", "A")}
        cfg = copy.deepcopy(sc["model"])
        # parameter containers of every kind, with the markers the constructors interpret ("inf")
        _secs = scen.labels(sc["table"])[1]
        if cfg.get("inventory_dict") is None:
            cfg["inventory_dict"] = {s_: rng.choice([90, 30, 5]) for s_ in _secs}
        cfg["inventory_dict"][_secs[-1]] = rng.choice(["inf", "Infinity"])
        if cfg.get("inf_sect") is None:
            cfg["inf_sect"] = [_secs[0]]
        if cfg["class"] == "psi" and not isinstance(cfg.get("restoration_tau"), dict):
            cfg["restoration_tau"] = {s_: rng.choice([60, 30, 90]) for s_ in _secs}
        if cfg["capital"]["kind"] == "default":
            cfg["capital"] = {"kind": "dict", "values": {s_: rng.choice([4, 2.5, 10]) for s_ in _secs}}
        # rebuilding shares that do not add up to exactly 1 in floats (0.7 + 0.2 + 0.1), given as the caller's own Series
        if len(_secs) >= 3:
            for e_ in sc["events"]:
                if e_["type"] == "rebuild" and rng.random() < 0.7:
                    e_["reb_sectors"] = dict(zip(_secs[:3], (0.7, 0.2, 0.1)))
                    e_["shares_series"] = True
        containers = {}
        for nm in ("inventory_dict", "inf_sect"):
            if cfg.get(nm) is not None:
                containers[nm] = cfg[nm]
        if isinstance(cfg.get("restoration_tau"), dict):
            containers["restoration_tau"] = cfg["restoration_tau"]
        if cfg["capital"]["kind"] == "dict":
            containers["capital_dict"] = cfg["capital"]["values"]
        csnaps = {kk: deep_snapshot(v) for kk, v in containers.items()}
        model = build_model_with_caller_objects(sc["table"], cfg, io)
        ev_objs, ev_inputs = [], []
        for e in sc["events"]:
            e["ctor"] = "series"          # the objects below are built with from_series: the fresh twins must be too
            if e["type"] != "arbitrary" and e["emf"] == sc["model"]["monetary_factor"]:
                # express the event in another unit so that the conversion path is exercised
                new_f = 1 if sc["model"]["monetary_factor"] != 1 else 10**3
                ratio = e["emf"] / new_f
                e["impact"] = {kk: v * ratio for kk, v in e["impact"].items()}
                if e.get("house"):
                    e["house"] = {kk: v * ratio for kk, v in e["house"].items()}
                e["emf"] = new_f
            if e["type"] == "recovery" and not e.get("house"):
                _regs0, _s0, _cats0 = scen.labels(sc["table"])
                e["house"] = {f"{_regs0[0]}|{_cats0[0]}": 0.1 * sum(e["impact"].values())}
            if e["type"] == "recovery" and e.get("house"):
                # a household damage too small to matter (below the library's threshold): the library may ignore it, not erase it
                # from the caller's Series
                _regs, _s2, _cats = scen.labels(sc["table"])
                free_ = [f"{r_}|{c_}" for r_ in _regs for c_ in _cats if f"{r_}|{c_}" not in e["house"]]
                if free_:
                    e["house"][rng.choice(free_)] = 3.0 / e["emf"]
            imp = scen._mi(dict(e["impact"]), ["region", "sector"])
            house = scen._mi(dict(e["house"]), ["region", "category"]) if e.get("house") else None
            rs = dict(e["reb_sectors"]) if e.get("reb_sectors") else None
            if rs is not None and (e.get("shares_series") or rng.random() < 0.5):
                rs = pd.Series(rs, dtype=float)          # the caller's own Series of rebuilding shares
            ev_inputs.append((imp, deep_snapshot(imp), house, deep_snapshot(house) if house is not None else None, rs, deep_snapshot(rs) if rs is not None else None))
            ev_objs.append(build_event_with(e, imp, house, rs))
        ev_snaps = [deep_snapshot(ev.impact) for ev in ev_objs]
        sim = Simulation(model, n_temporal_units_to_sim=sc["T"])
        for ev in ev_objs:
            sim.add_event(ev)
        try:
            quiet_loop(sim)
        except Exception:
            pass
        for ev, sn in zip(ev_objs, ev_snaps):
            if not same_snapshot(sn, ev.impact):
                viol(res, "C17", "an Event object was modified by being used in a simulation (its impact changed)", case=scen.summarize(sc))
        for nm, sn in snaps.items():
            if not same_snapshot(sn, getattr(io, nm)):
                viol(res, "C17", f"the caller's table was modified (mriot.{nm})", case=scen.summarize(sc))
        for kk, sn in csnaps.items():
            if not same_snapshot(sn, containers[kk]):
                viol(res, "C17", f"the caller's parameter container {kk} was modified", case=scen.summarize(sc))
        for imp, s_imp, house, s_house, rs, s_rs in ev_inputs:
            if not same_snapshot(s_imp, imp):
                viol(res, "C17", "the caller's impact Series was modified", case=scen.summarize(sc))
            if house is not None and not same_snapshot(s_house, house):
                viol(res, "C17", "the caller's households impact Series was modified", case=scen.summarize(sc))
            if rs is not None and not same_snapshot(s_rs, rs):
                viol(res, "C17", "the caller's rebuilding-sectors dict was modified", case=scen.summarize(sc))
        # the library's objects are their own: edits the caller makes LATER to the containers it passed (the buffer of a sweep
        # re-used for the next model, a Series of shares adjusted for the next event) change nothing in what was already built
        try:
            k_before = np.array(model.productive_capital, dtype=float, copy=True)
            cc = LAST_CALLER.get("capital")
            if isinstance(cc, np.ndarray):
                cc *= 0.5
            elif isinstance(cc, (pd.Series, pd.DataFrame)):
                cc.iloc[:] = cc.to_numpy() * 0.5
            if cc is not None and not np.array_equal(k_before, np.asarray(model.productive_capital, dtype=float)):
                viol(res, "C17", "the model's capital stock changed when the caller edited, after construction, the capital vector it had passed "
                     "(kept by reference)", case=scen.summarize(sc), kind=type(cc).__name__)
            for ev, (imp, _si, house, _sh, rs, _sr) in zip(ev_objs, ev_inputs):
                snap_ev = {"impact": deep_snapshot(ev.impact)}
                if hasattr(ev, "rebuilding_sectors"):
                    snap_ev["rebuilding_sectors"] = deep_snapshot(ev.rebuilding_sectors)
                if getattr(ev, "impact_households", None) is not None:
                    snap_ev["impact_households"] = deep_snapshot(ev.impact_households)
                imp.iloc[:] = imp.to_numpy() * 0.5
                if house is not None:
                    house.iloc[:] = house.to_numpy() * 0.5
                if isinstance(rs, pd.Series) and len(rs) > 1:
                    rs.iloc[:] = rs.to_numpy()[::-1].copy()
                elif isinstance(rs, dict) and len(rs) > 1:
                    ks_ = list(rs)
                    rs[ks_[0]], rs[ks_[-1]] = rs[ks_[-1]], rs[ks_[0]]
                for nm_, sn_ in snap_ev.items():
                    if not same_snapshot(sn_, getattr(ev, nm_)):
                        viol(res, "C17", f"an Event object changed ({nm_}) when the caller edited, after construction, the container it had passed "
                             "(kept by reference)", case=scen.summarize(sc))
        except Exception as _e:
            viol(res, "C17", f"later-edit (aliasing) check failed to run: {type(_e).__name__}: {str(_e)[:150]}", case=scen.summarize(sc))
        # one Event object used in two simulations (second one on another table with the same labels)
        if ev_objs:
            tb2 = scen.gen_table(random.Random(s + 99), m=sc["table"]["m"], n=sc["table"]["n"], k=sc["table"]["k"], kind="dense", scale=sc["table"]["scale"],
                                 labels=sc["table"].get("labels", "plain"))
            sc_b = copy.deepcopy(sc)
            sc_b["table"] = tb2
            if not known.match_scenario("C17", sc_b):
                ref_b = paired.run_records(copy.deepcopy(sc_b))
                try:
                    mb = scen.build_model(tb2, sc_b["model"])
                    simb = Simulation(mb, n_temporal_units_to_sim=sc["T"])
                    for ev in ev_objs:
                        simb.add_event(ev)
                    got_b = paired.run_records(sc_b, sim=simb)
                    res["paired_runs"] += 1
                    for v in paired.cmp_records("C17", ref_b, got_b, "Event objects already used in another simulation vs fresh Event objects"):
                        res["violations"].append({"violation": v, "scenario": sc_b})
                except Exception as e:
                    if "error" not in ref_b:
                        viol(res, "C17", f"re-using Event objects in a second simulation fails: {type(e).__name__}: {str(e)[:120]}")
    return res


LAST_CALLER = {}


def build_model_with_caller_objects(tb, cfg, io):
    """like scen.build_model but passes the caller's containers themselves (no defensive copies)"""
    LAST_CALLER.clear()
    regs, secs, cats = scen.labels(tb)
    kw = dict(order_type=cfg["order_type"], alpha_base=cfg["alpha_base"], alpha_max=cfg["alpha_max"], alpha_tau=cfg["alpha_tau"],
              rebuild_tau=cfg["rebuild_tau"], main_inv_dur=cfg["main_inv_dur"], monetary_factor=cfg["monetary_factor"],
              temporal_units_by_step=cfg["dt"], iotable_year_to_temporal_unit_factor=cfg["year_factor"])
    if cfg.get("inf_sect") is not None:
        kw["infinite_inventories_sect"] = cfg["inf_sect"]
    if cfg.get("inventory_dict") is not None:
        kw["inventory_dict"] = cfg["inventory_dict"]
    cap = cfg["capital"]
    ind = pd.MultiIndex.from_product([regs, secs], names=["region", "sector"])
    if cap["kind"] == "dict":
        kw["productive_capital_to_VA_dict"] = cap["values"]
    elif cap["kind"] == "ndarray":
        kw["productive_capital_vector"] = np.array(cap["values"], dtype=float)
    elif cap["kind"] == "series":
        kw["productive_capital_vector"] = pd.Series(cap["values"], index=ind, dtype=float)
    elif cap["kind"] == "dataframe":
        kw["productive_capital_vector"] = pd.DataFrame({"capital": cap["values"]}, index=ind, dtype=float)
    LAST_CALLER["capital"] = kw.get("productive_capital_vector")
    if cfg["class"] == "psi":
        kw["psi_param"] = cfg.get("psi", 0.8)
        kw["inventory_restoration_tau"] = cfg.get("restoration_tau", 60)
        return ARIOPsiModel(io, **kw)
    return ARIOBaseModel(io, **kw)


def build_event_with(e, imp, house, rs):
    if e["type"] == "arbitrary":
        return bev.from_series(imp, event_type="arbitrary", occurrence=e["occ"], duration=e["dur"], recovery_tau=e["recovery_tau"],
                               recovery_function=scen.curve_arg(e["curve"]))
    if e["type"] == "rebuild":
        return bev.from_series(imp, event_type="rebuild", occurrence=e["occ"], duration=e["dur"], event_monetary_factor=e["emf"],
                               households_impact=house, rebuild_tau=e["rebuild_tau"], rebuilding_sectors=rs, rebuilding_factor=e["factor"])
    return bev.from_series(imp, event_type="recovery", occurrence=e["occ"], duration=e["dur"], event_monetary_factor=e["emf"],
                           households_impact=house, recovery_tau=e["recovery_tau"], recovery_function=scen.curve_arg(e["curve"]))
