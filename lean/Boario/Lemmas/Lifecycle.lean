/-
  Helper lemmas on the event life-cycle: `wake`, `advance`, `lifecycle`, `receiveAll`, `recoverAll`,
  and the tracker part of an `ok` step.
-/
import Boario.Lemmas.Step
import Mathlib.Data.List.Forall2

namespace Boario
variable {d : Dims}

/-! ### generic `Forall₂` plumbing -/

theorem forall₂_trans' {α β γ : Type} {R : α → β → Prop} {S : β → γ → Prop} {T : α → γ → Prop}
    (hT : ∀ a b c, R a b → S b c → T a c) :
    ∀ {l1 : List α} {l2 : List β} {l3 : List γ}, List.Forall₂ R l1 l2 → List.Forall₂ S l2 l3 →
      List.Forall₂ T l1 l3
  | _, _, _, .nil, .nil => .nil
  | _, _, _, .cons h1 t1, .cons h2 t2 => .cons (hT _ _ _ h1 h2) (forall₂_trans' hT t1 t2)

theorem forall₂_map_self {α : Type} {R : α → α → Prop} (f : α → α) (l : List α)
    (h : ∀ a ∈ l, R a (f a)) : List.Forall₂ R l (l.map f) := by
  induction l with
  | nil => exact .nil
  | cons a l ih =>
    exact .cons (h a (List.mem_cons_self ..)) (ih fun b hb => h b (List.mem_cons_of_mem _ hb))

theorem forall₂_map_eq {α β γ : Type} {R : α → β → Prop} (f : α → γ) (g : β → γ)
    (h : ∀ a b, R a b → f a = g b) :
    ∀ {l1 : List α} {l2 : List β}, List.Forall₂ R l1 l2 → l1.map f = l2.map g
  | _, _, .nil => rfl
  | _, _, .cons h1 t1 => by rw [List.map_cons, List.map_cons, h _ _ h1, forall₂_map_eq f g h t1]

/-- transfer a property of all left elements to all right elements -/
theorem forall₂_mem_right {α β : Type} {R : α → β → Prop} :
    ∀ {l1 : List α} {l2 : List β}, List.Forall₂ R l1 l2 → ∀ b ∈ l2, ∃ a ∈ l1, R a b
  | _, _, .nil, b, hb => by cases hb
  | _, _, .cons (a := a) h1 t1, b, hb => by
    rcases List.mem_cons.mp hb with rfl | hb
    · exact ⟨a, List.mem_cons_self .., h1⟩
    · obtain ⟨a', ha', hr⟩ := forall₂_mem_right t1 b hb
      exact ⟨a', List.mem_cons_of_mem _ ha', hr⟩

theorem forall₂_and_left {α β : Type} {R : α → β → Prop} {P : α → Prop} :
    ∀ {l1 : List α} {l2 : List β}, List.Forall₂ R l1 l2 → (∀ a ∈ l1, P a) →
      List.Forall₂ (fun a b => R a b ∧ P a) l1 l2
  | _, _, .nil, _ => .nil
  | _, _, .cons h1 t1, hP =>
    .cons ⟨h1, hP _ (List.mem_cons_self ..)⟩ (forall₂_and_left t1 fun a ha => hP a (List.mem_cons_of_mem _ ha))

/-! ### the life-cycle phase -/

/-- what `advance` does to one tracker -/
def AdvRel (t : Nat) (a b : Tracker d) : Prop :=
  (¬ (a.status = .happening ∧ a.occ + a.dur ≤ t) ∧ b = a) ∨
  (a.status = .happening ∧ a.occ + a.dur ≤ t ∧ a.kind = .rebuild ∧
    ∃ n, b = { a with status := .rebuilding, rid := some n }) ∨
  (a.status = .happening ∧ a.occ + a.dur ≤ t ∧ a.kind ≠ .rebuild ∧ b = { a with status := .recovering })

theorem advance_rel (t : Nat) : ∀ (trs : List (Tracker d)) (nb : Nat),
    List.Forall₂ (AdvRel t) trs (advance t trs nb).1
  | [], nb => by simp [advance]
  | tr :: rest, nb => by
    unfold advance
    by_cases hc : tr.status = .happening ∧ tr.occ + tr.dur ≤ t
    · rw [if_pos hc]
      split
      · rename_i hk
        exact .cons (Or.inr (Or.inl ⟨hc.1, hc.2, hk, nb, rfl⟩)) (advance_rel t rest (nb + 1))
      · rename_i hk
        refine .cons (Or.inr (Or.inr ⟨hc.1, hc.2, ?_, rfl⟩)) (advance_rel t rest nb)
        intro h; exact hk h
    · rw [if_neg hc]
      exact .cons (Or.inl ⟨hc, rfl⟩) (advance_rel t rest nb)

theorem lifecycle_rel (t dt : Nat) (trs : List (Tracker d)) (nb : Nat) :
    List.Forall₂ (fun a b => AdvRel t (wake t dt a) b) trs (lifecycle t dt trs nb).1 := by
  unfold lifecycle
  exact List.forall₂_map_left_iff.mp (advance_rel t _ nb)

theorem wake_fields (t dt : Nat) (a : Tracker d) :
    (wake t dt a).kind = a.kind ∧ (wake t dt a).occ = a.occ ∧ (wake t dt a).dur = a.dur ∧
    (wake t dt a).tau = a.tau ∧
    (wake t dt a).status =
      (if a.status = .pending ∧ t ≤ a.occ + dt ∧ a.occ ≤ t then Status.happening else a.status) := by
  unfold wake
  split_ifs <;> simp

theorem advRel_fields (t : Nat) (w b : Tracker d) (h : AdvRel t w b) :
    b.kind = w.kind ∧ b.occ = w.occ ∧ b.dur = w.dur ∧ b.tau = w.tau ∧
    b.status = (if w.status = .happening ∧ w.occ + w.dur ≤ t then
        (match w.kind with | .rebuild => Status.rebuilding | _ => Status.recovering)
      else w.status) := by
  rcases h with ⟨hc, rfl⟩ | ⟨h1, h2, h3, n, rfl⟩ | ⟨h1, h2, h3, rfl⟩
  · rw [if_neg hc]; exact ⟨rfl, rfl, rfl, rfl, rfl⟩
  · rw [if_pos ⟨h1, h2⟩, h3]; exact ⟨rfl, rfl, rfl, rfl, rfl⟩
  · rw [if_pos ⟨h1, h2⟩]
    refine ⟨rfl, rfl, rfl, rfl, ?_⟩
    cases hkk : w.kind <;> simp_all

/-- one tracker through the life-cycle phase: schedule and kind unchanged, status as in `lifeStatus` -/
theorem advRel_wake (t dt : Nat) (a b : Tracker d) (h : AdvRel t (wake t dt a) b) :
    (a.kind = b.kind ∧ a.occ = b.occ ∧ a.dur = b.dur ∧ a.tau = b.tau) ∧
    b.status =
      (if (if a.status = .pending ∧ t ≤ a.occ + dt ∧ a.occ ≤ t then Status.happening else a.status)
            = .happening ∧ a.occ + a.dur ≤ t then
        (match a.kind with | .rebuild => Status.rebuilding | _ => Status.recovering)
      else (if a.status = .pending ∧ t ≤ a.occ + dt ∧ a.occ ≤ t then Status.happening else a.status)) := by
  obtain ⟨hk, ho, hd, ht, hs⟩ := wake_fields t dt a
  obtain ⟨bk, bo, bd, bt, bs⟩ := advRel_fields t _ b h
  rw [hk, ho, hd, hs] at bs
  exact ⟨⟨by rw [bk, hk], by rw [bo, ho], by rw [bd, hd], by rw [bt, ht]⟩, bs⟩

/-! ### the ledger phase -/

theorem receive_fields (a : Tracker d) (got : RebBlock d) :
    (receive a got).kind = a.kind ∧ (receive a got).occ = a.occ ∧ (receive a got).dur = a.dur ∧
    (receive a got).tau = a.tau ∧
    ((receive a got).status = a.status ∨ (receive a got).status = .finished) := by
  unfold receive
  simp only
  split_ifs <;> (repeat' split) <;> simp

theorem receiveOne_fields (rp : List (RebBlock d)) (a : Tracker d) :
    (receiveOne rp a).kind = a.kind ∧ (receiveOne rp a).occ = a.occ ∧ (receiveOne rp a).dur = a.dur ∧
    (receiveOne rp a).tau = a.tau ∧
    ((receiveOne rp a).status = a.status ∨
      (a.status = .rebuilding ∧ (receiveOne rp a).status = .finished)) := by
  unfold receiveOne
  split_ifs with h
  · split
    · obtain ⟨h1, h2, h3, h4, h5⟩ := receive_fields a (gotOfId rp ‹Nat›)
      exact ⟨h1, h2, h3, h4, h5.imp id fun h' => ⟨h, h'⟩⟩
    · exact ⟨rfl, rfl, rfl, rfl, Or.inl rfl⟩
  · exact ⟨rfl, rfl, rfl, rfl, Or.inl rfl⟩

theorem recoverOne_fields (t : Nat) (a : Tracker d) :
    (recoverOne t a).kind = a.kind ∧ (recoverOne t a).occ = a.occ ∧ (recoverOne t a).dur = a.dur ∧
    (recoverOne t a).tau = a.tau ∧
    ((recoverOne t a).status = a.status ∨
      (a.status = .recovering ∧ (recoverOne t a).status = .finished)) := by
  unfold recoverOne
  by_cases h : a.status = .recovering
  · rw [if_neg (not_not.mpr h)]
    simp only
    split_ifs <;> simp [h]
  · rw [if_pos h]
    exact ⟨rfl, rfl, rfl, rfl, Or.inl rfl⟩

/-- what the ledger phase does to one tracker -/
def PostRel (a b : Tracker d) : Prop :=
  b.kind = a.kind ∧ b.occ = a.occ ∧ b.dur = a.dur ∧ b.tau = a.tau ∧
  (b.status = a.status ∨ ((a.status = .rebuilding ∨ a.status = .recovering) ∧ b.status = .finished))

theorem compactIds_rel (trs : List (Tracker d)) :
    List.Forall₂ (fun a b => b.kind = a.kind ∧ b.occ = a.occ ∧ b.dur = a.dur ∧ b.tau = a.tau ∧
      b.status = a.status) trs (compactIds trs) := by
  unfold compactIds
  apply forall₂_map_self
  intro a _
  split_ifs
  · exact ⟨rfl, rfl, rfl, rfl, rfl⟩
  · split <;> exact ⟨rfl, rfl, rfl, rfl, rfl⟩

theorem post_rel (t : Nat) (rp : List (RebBlock d)) (trs : List (Tracker d)) :
    List.Forall₂ PostRel trs (recoverAll t (receiveAll rp trs)) := by
  unfold recoverAll receiveAll
  have h2 := List.forall₂_map_left_iff.mp (compactIds_rel (trs.map (receiveOne rp)))
  apply List.forall₂_map_right_iff.mpr
  refine h2.imp ?_
  rintro a c ⟨c1, c2, c3, c4, c5⟩
  obtain ⟨r1, r2, r3, r4, r5⟩ := receiveOne_fields rp a
  obtain ⟨e1, e2, e3, e4, e5⟩ := recoverOne_fields t c
  refine ⟨by rw [e1, c1, r1], by rw [e2, c2, r2], by rw [e3, c3, r3], by rw [e4, c4, r4], ?_⟩
  rw [c5] at e5
  rcases r5 with r5 | ⟨r5, r6⟩
  · rw [r5] at e5
    rcases e5 with e5 | ⟨e5, e6⟩
    · exact Or.inl e5
    · exact Or.inr ⟨Or.inr e5, e6⟩
  · rw [r6] at e5
    rcases e5 with e5 | ⟨e5, _⟩
    · exact Or.inr ⟨Or.inl r5, e5⟩
    · cases e5

/-! ### the tracker part of a step -/

theorem eventsPre_trackers (s s1 : Sim d) (h : eventsPre s = .ok s1) :
    s1.trackers = (lifecycle s.t s.dt s.trackers s.nBlocks).1 ∧
    s1.nBlocks = (lifecycle s.t s.dt s.trackers s.nBlocks).2 ∧ s1.t = s.t ∧ s1.dt = s.dt := by
  unfold eventsPre at h
  simp only at h
  split_ifs at h <;> injection h with h <;> subst h <;> exact ⟨rfl, rfl, rfl, rfl⟩

/-- decomposition of an `ok` step, tracker side -/
theorem nextStep_trackers (s s' : Sim d) (h : nextStep s = .ok s') :
    ∃ (s1 : Sim d) (rp : List (RebBlock d)),
      eventsPre s = .ok s1 ∧
      s'.trackers = recoverAll s1.t (receiveAll rp s1.trackers) ∧
      s'.t = s1.t + s1.dt ∧ s'.dt = s1.dt ∧ s'.nBlocks = s1.nBlocks := by
  unfold nextStep at h
  obtain ⟨s1, h1, h⟩ := bind_ok _ _ _ h
  simp only at h
  obtain ⟨e2, h2, h⟩ := bind_ok _ _ _ h
  split at h
  · cases h
  · cases h
  · cases h
  · rename_i e3 h3
    obtain ⟨e4, h4, h⟩ := bind_ok _ _ _ h
    injection h with h
    subst h
    exact ⟨s1, e3.rebProd, h1, rfl, rfl, rfl, rfl⟩

/-- one tracker through a whole step: life-cycle phase, then ledger phase -/
def StepRel (t dt : Nat) (a b : Tracker d) : Prop := ∃ m, AdvRel t (wake t dt a) m ∧ PostRel m b

theorem nextStep_rel (s s' : Sim d) (h : nextStep s = .ok s') :
    List.Forall₂ (StepRel s.t s.dt) s.trackers s'.trackers ∧ s'.t = s.t + s.dt ∧ s'.dt = s.dt := by
  obtain ⟨s1, rp, h1, htr, ht, hdt, _⟩ := nextStep_trackers s s' h
  obtain ⟨e1, _, e3, e4⟩ := eventsPre_trackers s s1 h1
  rw [e3, e4] at ht
  rw [e4] at hdt
  refine ⟨?_, ht, hdt⟩
  rw [htr, e1, e3]
  exact forall₂_trans' (fun a m b ham hmb => ⟨m, ham, hmb⟩) (lifecycle_rel s.t s.dt s.trackers s.nBlocks)
    (post_rel s.t rp _)

/-! ### pending trackers are invisible -/

theorem sumList_zero (l : List Rat) (h : ∀ x ∈ l, x = 0) : sumList l = 0 := by
  rw [sumList_eq_sum]
  exact List.sum_eq_zero h

theorem foldl_max_zero (l : List Rat) (h : ∀ x ∈ l, x = 0) : l.foldl max 0 = 0 := by
  induction l with
  | nil => rfl
  | cons a l ih =>
    rw [List.foldl_cons, h a (List.mem_cons_self ..), max_self]
    exact ih fun x hx => h x (List.mem_cons_of_mem _ hx)

theorem pending_contrib (tr : Tracker d) (h : tr.status = .pending) (i : Ind d) :
    tr.lostContribution i = 0 ∧ tr.arbContribution i = 0 := by
  unfold Tracker.lostContribution Tracker.arbContribution Tracker.active
  simp [h]

theorem pending_lost (trs : List (Tracker d)) (h : ∀ tr ∈ trs, tr.status = .pending) :
    lostCapital trs = (fun _ => 0) ∧ arbDelta trs = (fun _ => 0) ∧ anyRebuilding trs = false := by
  refine ⟨?_, ?_, ?_⟩
  · funext i
    unfold lostCapital
    apply sumList_zero
    intro x hx
    obtain ⟨tr, htr, rfl⟩ := List.mem_map.mp hx
    exact (pending_contrib tr (h tr htr) i).1
  · funext i
    unfold arbDelta
    apply foldl_max_zero
    intro x hx
    obtain ⟨tr, htr, rfl⟩ := List.mem_map.mp hx
    exact (pending_contrib tr (h tr htr) i).2
  · unfold anyRebuilding
    rw [List.any_eq_false]
    intro tr htr
    simp [h tr htr]

end Boario
