/-
  Helper lemmas for C03: the inventory-constrained production level `prodShortage`
  for an arbitrary non-negative target level `x`.
-/
import Boario.Lemmas.Sums

namespace Boario
variable {d : Dims}

/-- what the lemmas below need about a target production level `x` -/
structure ProdPre (p : Params d) (stock : Fin d.n → Ind d → Rat) (x : Ind d → Rat) : Prop where
  stock_nonneg : ∀ s f, (p.invDur s).isSome = true → 0 ≤ stock s f
  x_nonneg : ∀ f, 0 ≤ x f
  a_nonneg : ∀ s f, 0 ≤ p.a s f
  psi_nonneg : 0 ≤ p.psi
  dur_pos : ∀ s v, p.invDur s = some v → 0 < v

section
variable {p : Params d} {stock : Fin d.n → Ind d → Rat} {x : Ind d → Rat}

theorem durOrZero_nonneg (h : ProdPre p stock x) (s : Fin d.n) : 0 ≤ durOrZero p s := by
  unfold durOrZero
  split
  · next v hv => exact (h.dur_pos s v hv).le
  · exact le_refl _

theorem durOrZero_of_some {s : Fin d.n} {v : Rat} (hv : p.invDur s = some v) :
    durOrZero p s = v := by
  unfold durOrZero; rw [hv]

theorem cons_nonneg (h : ProdPre p stock x) (s : Fin d.n) (f : Ind d) : 0 ≤ cons p x s f := by
  unfold cons
  exact mul_nonneg (mul_nonneg (mul_nonneg (h.x_nonneg f) (h.a_nonneg s f)) h.psi_nonneg)
    (durOrZero_nonneg h s)

theorem cons_pos (h : ProdPre p stock x) {s : Fin d.n} {f : Ind d} (hc : cons p x s f ≠ 0) :
    0 < cons p x s f :=
  lt_of_le_of_ne (cons_nonneg h s f) (Ne.symm hc)

/-- a non-zero constraint belongs to a tracked (finite) input -/
theorem isSome_of_cons_ne_zero {s : Fin d.n} {f : Ind d} (hc : cons p x s f ≠ 0) :
    (p.invDur s).isSome = true := by
  cases hv : p.invDur s with
  | some v => rfl
  | none =>
    exfalso; apply hc
    unfold cons durOrZero
    rw [hv]; exact mul_zero _

theorem fill_nonneg (h : ProdPre p stock x) {s : Fin d.n} {f : Ind d} (hc : cons p x s f ≠ 0) :
    0 ≤ stock s f / cons p x s f :=
  div_nonneg (h.stock_nonneg s f (isSome_of_cons_ne_zero hc)) (cons_nonneg h s f)

theorem ratio_nonneg (h : ProdPre p stock x) (s : Fin d.n) (f : Ind d) :
    0 ≤ ratio p stock x s f := by
  unfold ratio
  split_ifs with hc
  · exact le_min zero_le_one (fill_nonneg h hc.2)
  · exact zero_le_one

theorem ratio_le_one (s : Fin d.n) (f : Ind d) : ratio p stock x s f ≤ 1 := by
  unfold ratio
  split_ifs with hc
  · exact min_le_left _ _
  · exact le_refl _

/-- the ratio, when the input is real with a non-zero constraint, is at most the fill ratio -/
theorem ratio_le_fill {s : Fin d.n} {f : Ind d} (hthr : p.thr s f = true)
    (hc : cons p x s f ≠ 0) : ratio p stock x s f ≤ stock s f / cons p x s f := by
  unfold ratio
  rw [if_pos ⟨hthr, hc⟩]
  exact min_le_right _ _

theorem ratio_eq_one_of_not_constraint (h : ProdPre p stock x) {s : Fin d.n} {f : Ind d}
    (hn : stockConstraint p stock x s f = false) : ratio p stock x s f = 1 := by
  unfold ratio
  split_ifs with hc
  · obtain ⟨hthr, hc0⟩ := hc
    have hsome := isSome_of_cons_ne_zero hc0
    have hpos := cons_pos h hc0
    have hge : cons p x s f ≤ stock s f := by
      unfold stockConstraint at hn
      rw [hthr, hsome] at hn
      simpa using hn
    exact min_eq_left ((one_le_div hpos).2 hge)
  · rfl

theorem prodShortage_le (f : Ind d) : prodShortage p stock x f ≤ x f :=
  minFin_le_init _ _ _

theorem prodShortage_le_ratio (s : Fin d.n) (f : Ind d) :
    prodShortage p stock x f ≤ x f * ratio p stock x s f :=
  minFin_le _ _ _ s

theorem prodShortage_nonneg (h : ProdPre p stock x) (f : Ind d) :
    0 ≤ prodShortage p stock x f :=
  le_minFin _ _ _ _ (h.x_nonneg f) fun s => mul_nonneg (h.x_nonneg f) (ratio_nonneg h s f)

theorem not_constraint_of_not_any (hn : ¬ anyConstraint p stock x) (s : Fin d.n) (f : Ind d) :
    stockConstraint p stock x s f = false := by
  cases hs : stockConstraint p stock x s f with
  | false => rfl
  | true => exact absurd ⟨s, f.1, f.2, hs⟩ hn

theorem prodShortage_eq_of_not_any (h : ProdPre p stock x) (hn : ¬ anyConstraint p stock x)
    (f : Ind d) : prodShortage p stock x f = x f := by
  apply le_antisymm (prodShortage_le f)
  apply le_minFin _ _ _ _ (le_refl _)
  intro s
  rw [ratio_eq_one_of_not_constraint h (not_constraint_of_not_any hn s f), mul_one]

/-- the two branches of `calc_production` are one closed form -/
theorem production_eq_prodShortage (h : ProdPre p stock x) (f : Ind d) :
    production p stock x f = prodShortage p stock x f := by
  unfold production
  split_ifs with hany
  · rfl
  · exact (prodShortage_eq_of_not_any h hany f).symm

/-- the inventory covers `psi · v` steps of use at the constrained level -/
theorem prodShortage_stock_support (h : ProdPre p stock x) (f : Ind d) (s : Fin d.n) (v : Rat)
    (hthr : p.thr s f = true) (hv : p.invDur s = some v) (hc : cons p x s f ≠ 0) :
    prodShortage p stock x f * p.a s f * p.psi * v ≤ stock s f := by
  have hpos := cons_pos h hc
  have hvpos := h.dur_pos s v hv
  have hcons : cons p x s f = x f * p.a s f * p.psi * v := by
    unfold cons; rw [durOrZero_of_some hv]
  have hk : 0 ≤ p.a s f * p.psi * v :=
    mul_nonneg (mul_nonneg (h.a_nonneg s f) h.psi_nonneg) hvpos.le
  have h1 : prodShortage p stock x f ≤ x f * (stock s f / cons p x s f) :=
    le_trans (prodShortage_le_ratio s f)
      (mul_le_mul_of_nonneg_left (ratio_le_fill hthr hc) (h.x_nonneg f))
  calc prodShortage p stock x f * p.a s f * p.psi * v
      = prodShortage p stock x f * (p.a s f * p.psi * v) := by ring
    _ ≤ x f * (stock s f / cons p x s f) * (p.a s f * p.psi * v) :=
        mul_le_mul_of_nonneg_right h1 hk
    _ = stock s f / cons p x s f * cons p x s f := by rw [hcons]; ring
    _ = stock s f := div_mul_cancel₀ _ hc

/-- the constrained level is the target, or the target times the fill ratio of a real input -/
theorem prodShortage_tight (f : Ind d) :
    prodShortage p stock x f = x f ∨
    ∃ s, p.thr s f = true ∧ cons p x s f ≠ 0 ∧
      prodShortage p stock x f = x f * (stock s f / cons p x s f) := by
  rcases minFin_eq d.n (x f) (fun s => x f * ratio p stock x s f) with h0 | ⟨s, hs⟩
  · left; exact h0
  · change prodShortage p stock x f = x f * ratio p stock x s f at hs
    by_cases hc : p.thr s f = true ∧ cons p x s f ≠ 0
    · rcases min_choice 1 (stock s f / cons p x s f) with hm | hm
      · left; rw [hs]; unfold ratio; rw [if_pos hc, hm, mul_one]
      · right
        refine ⟨s, hc.1, hc.2, ?_⟩
        rw [hs]; unfold ratio; rw [if_pos hc, hm]
    · left; rw [hs]; unfold ratio; rw [if_neg hc, mul_one]

end
end Boario
