/-
  C15 — Results do not depend on the order in which labelled inputs are given.
  Partial: "bit-identical" is a statement about floats; what is proved is that canonicalisation maps all
  orderings of one labelled input to the same value, so anything computed from the canonical form is
  *equal*.  That the implementation does no arithmetic before canonicalising is checked differentially
  (token tables, bitwise twins).
-/
import Boario.Lemmas.Sums
import Boario.Labels
import Boario.Lemmas.Canon
import Mathlib.Data.List.Sort
import Mathlib.Data.List.Perm.Basic
import Mathlib.Data.List.Nodup

namespace Boario.Labels

variable {α : Type}

/-- canonical form is sorted by label … -/
theorem canon_sorted (l : Labelled α) : (canon l).Pairwise (fun a b => a.1 ≤ b.1) := by
  induction l with
  | nil => exact List.Pairwise.nil
  | cons p ps ih => exact insert_sorted p _ ih

/-- … is a permutation of the input (nothing lost, nothing invented) … -/
theorem canon_perm_self (l : Labelled α) : (canon l).Perm l := by
  induction l with
  | nil => exact List.Perm.refl _
  | cons p ps ih => exact (insert_perm p _).trans (List.Perm.cons p ih)

/-- … and does not depend on the order in which the entries were given -/
theorem canon_perm (l₁ l₂ : Labelled α) (hp : l₁.Perm l₂) (hk : (l₁.map (·.1)).Nodup) :
    canon l₁ = canon l₂ := by
  have h₁ := canon_perm_self l₁
  have h₂ := canon_perm_self l₂
  refine eq_of_perm_sorted_nodupKeys _ _ (h₁.trans (hp.trans h₂.symm)) ?_
    (canon_sorted l₁) (canon_sorted l₂)
  exact ((h₁.map (·.1)).nodup_iff).2 hk

/-- the model's arrays (values in label order) are the same for every ordering of the input -/
theorem values_perm (l₁ l₂ : Labelled α) (hp : l₁.Perm l₂) (hk : (l₁.map (·.1)).Nodup) :
    values l₁ = values l₂ := by
  simp only [values, canon_perm l₁ l₂ hp hk]

/-- two labelled axes (a table): permuting rows and, inside every row, columns -/
theorem canonTable_perm (t₁ t₂ : Labelled (Labelled α)) (hk : (t₁.map (·.1)).Nodup)
    (hrows : ∃ t, t₁.Perm t ∧ List.Forall₂ (fun a b => a.1 = b.1 ∧ a.2.Perm b.2 ∧ (a.2.map (·.1)).Nodup) t t₂) :
    canonTable t₁ = canonTable t₂ := by
  obtain ⟨t, hp, hf⟩ := hrows
  unfold canonTable
  have hrow : (t.map fun r => (r.1, canon r.2)) = t₂.map fun r => (r.1, canon r.2) :=
    mapRows_eq_of_forall₂ canon (fun a b => a.Perm b ∧ (a.map (·.1)).Nodup)
      (fun a b hab => canon_perm a b hab.1 hab.2) t t₂ hf
  rw [← hrow]
  refine canon_perm _ _ (hp.map _) ?_
  rw [map_keys_mapRows]
  exact hk

/-- label-based widening (`_thin_to_wide`) ignores the order of the entries -/
theorem widen_perm (n : Nat) (l₁ l₂ : Labelled Rat) (hp : l₁.Perm l₂) (hk : (l₁.map (·.1)).Nodup) :
    widen n l₁ = widen n l₂ := by
  unfold widen
  apply List.map_congr_left
  intro k _
  rw [find?_key_perm l₁ l₂ hp hk k]

/-- … and puts each value at the position of its own label -/
theorem widen_get (n : Nat) (l : Labelled Rat) (hk : (l.map (·.1)).Nodup) (k : Nat) (v : Rat)
    (hm : (k, v) ∈ l) (hlt : k < n) : (widen n l).getD k 0 = v := by
  unfold widen
  rw [List.getD_eq_getElem?_getD, List.getElem?_map, List.getElem?_range hlt]
  simp [find?_key_of_mem l hk k v hm]

/-- whatever is computed from the canonical form is independent of the input order -/
theorem ingest_factors {β : Type} (F : Labelled α → β) (l₁ l₂ : Labelled α) (hp : l₁.Perm l₂)
    (hk : (l₁.map (·.1)).Nodup) : F (canon l₁) = F (canon l₂) := by
  rw [canon_perm l₁ l₂ hp hk]

end Boario.Labels
