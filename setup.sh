#!/bin/sh
# offline build of the framework: regenerate the source-derived Lean tables, then build the Lean model,
# all theorems and the driver (no network, no Mathlib `require`)
cd "$(dirname "$0")" || exit 2
/venv/bin/python harness/translate.py || exit 1
cd lean || exit 2
mkdir -p .lake
flock .lake/verif.lock lake build driver Boario || exit 1
