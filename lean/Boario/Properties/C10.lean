/-
  C10 — Events act on schedule, in order, and never before they occur.
  Schedule statements are for step length 1 (`dt = 1`), the only documented value.
-/
import Boario.Lemmas.Sums
import Boario.Init
import Boario.Lemmas.Lifecycle
import Boario.Lemmas.Prefix

namespace Boario
variable {d : Dims}

/-- what one life-cycle call does to the status of one tracker at step `t` (step length `dt`) -/
def lifeStatus (t dt : Nat) (tr : Tracker d) : Status :=
  let s1 := if tr.status = .pending ∧ t ≤ tr.occ + dt ∧ tr.occ ≤ t then Status.happening else tr.status
  if s1 = .happening ∧ tr.occ + tr.dur ≤ t then
    (match tr.kind with | .rebuild => Status.rebuilding | _ => Status.recovering)
  else s1

/-- schedule and kind of a tracker never change -/
def SameEvent (a b : Tracker d) : Prop :=
  a.kind = b.kind ∧ a.occ = b.occ ∧ a.dur = b.dur ∧ a.tau = b.tau

/-- one tracker through the life-cycle phase (`AdvRel`, `wake`: see `Boario.Lemmas.Lifecycle`) -/
theorem advRel_lifeStatus (t dt : Nat) (a b : Tracker d) (h : AdvRel t (wake t dt a) b) :
    SameEvent a b ∧ b.status = lifeStatus t dt a := by
  refine ⟨(advRel_wake t dt a b h).1, ?_⟩
  rw [(advRel_wake t dt a b h).2]
  unfold lifeStatus
  cases a.kind <;> rfl

/-- the life-cycle phase acts tracker by tracker, exactly as `lifeStatus` says -/
theorem lifecycle_status (t dt : Nat) (trs : List (Tracker d)) (nb : Nat) :
    (lifecycle t dt trs nb).1.map (·.status) = trs.map (lifeStatus t dt) ∧
    (lifecycle t dt trs nb).1.length = trs.length := by
  have h := lifecycle_rel t dt trs nb
  refine ⟨?_, h.length_eq.symm⟩
  exact (forall₂_map_eq (lifeStatus t dt) (·.status)
    (fun a b hab => (advRel_lifeStatus t dt a b hab).2.symm) h).symm

theorem lifecycle_same_event (t dt : Nat) (trs : List (Tracker d)) (nb : Nat) :
    List.Forall₂ SameEvent trs (lifecycle t dt trs nb).1 := by
  exact (lifecycle_rel t dt trs nb).imp fun a b hab => (advRel_lifeStatus t dt a b hab).1

/-- the ledger phase (`rebuild_events`, `recover_events`) can only finish an event -/
theorem post_status (t : Nat) (rebProd : List (RebBlock d)) (trs : List (Tracker d)) :
    List.Forall₂ (fun a b => SameEvent a b ∧
        (b.status = a.status ∨ ((a.status = .rebuilding ∨ a.status = .recovering) ∧ b.status = .finished)))
      trs (recoverAll t (receiveAll rebProd trs)) := by
  refine (post_rel t rebProd trs).imp ?_
  rintro a b ⟨h1, h2, h3, h4, h5⟩
  exact ⟨⟨h1.symm, h2.symm, h3.symm, h4.symm⟩, h5⟩

/-- one tracker through a whole step (`StepRel`: see `Boario.Lemmas.Lifecycle`) -/
theorem stepRel_spec (t dt : Nat) (a b : Tracker d) (h : StepRel t dt a b) :
    SameEvent a b ∧
    (b.status = lifeStatus t dt a ∨
      ((lifeStatus t dt a = .rebuilding ∨ lifeStatus t dt a = .recovering) ∧ b.status = .finished)) := by
  obtain ⟨m, hm, h1, h2, h3, h4, h5⟩ := h
  obtain ⟨⟨k1, k2, k3, k4⟩, hs⟩ := advRel_lifeStatus t dt a m hm
  rw [hs] at h5
  exact ⟨⟨by rw [h1, k1], by rw [h2, k2], by rw [h3, k3], by rw [h4, k4]⟩, h5⟩

/-- statuses go pending → happening → rebuilding | recovering → finished, never backwards, and a
    rebuilding event never becomes a recovering one or vice versa -/
theorem status_edges (s s' : Sim d) (h : nextStep s = .ok s')
    (hwf : ∀ tr ∈ s.trackers, (tr.status = .rebuilding → tr.kind = .rebuild) ∧
        (tr.status = .recovering → tr.kind ≠ .rebuild)) :
    List.Forall₂ (fun a b => SameEvent a b ∧ a.status.rank ≤ b.status.rank ∧
        (a.status = .rebuilding → b.status = .rebuilding ∨ b.status = .finished) ∧
        (a.status = .recovering → b.status = .recovering ∨ b.status = .finished) ∧
        (b.status = .rebuilding → a.kind = .rebuild) ∧
        (b.status = .recovering → a.kind ≠ .rebuild))
      s.trackers s'.trackers := by
  obtain ⟨hrel, -, -⟩ := nextStep_rel s s' h
  refine (forall₂_and_left hrel hwf).imp ?_
  rintro a b ⟨hab, hw1, hw2⟩
  obtain ⟨hse, hst⟩ := stepRel_spec _ _ a b hab
  refine ⟨hse, ?_⟩
  unfold lifeStatus at hst
  cases hs : a.status <;> cases hk : a.kind <;> cases hb : b.status <;>
    simp only [hs, hk, hb, Status.rank] at hst hw1 hw2 ⊢ <;> grind

/-- the well-formedness hypothesis of `status_edges` (status agrees with kind) holds when all events are
    pending and is preserved by every step, hence holds along every run from an all-pending state -/
theorem status_kind_step (s s' : Sim d) (h : nextStep s = .ok s')
    (hwf : ∀ tr ∈ s.trackers, (tr.status = .rebuilding → tr.kind = .rebuild) ∧
        (tr.status = .recovering → tr.kind ≠ .rebuild)) :
    ∀ tr ∈ s'.trackers, (tr.status = .rebuilding → tr.kind = .rebuild) ∧
        (tr.status = .recovering → tr.kind ≠ .rebuild) := by
  intro b hb
  obtain ⟨a, -, ⟨hk, -, -, -⟩, -, -, -, h1, h2⟩ := forall₂_mem_right (status_edges s s' h hwf) b hb
  rw [← hk]
  exact ⟨h1, h2⟩

/-- timeline invariant at the beginning of step `t` (steps `0 … t-1` done), `dt = 1` -/
def OnSchedule (t : Nat) (tr : Tracker d) : Prop :=
  (t ≤ tr.occ → tr.status = .pending) ∧
  (tr.occ < t ∧ t ≤ tr.occ + tr.dur → tr.status = .happening) ∧
  (tr.occ + tr.dur < t → 2 ≤ tr.status.rank)

/-- the shock is in force from the step equal to the occurrence; reconstruction or recovery starts at
    the step occurrence + duration: the timeline invariant is preserved by every step -/
theorem status_timeline_step (s s' : Sim d) (hdt : s.dt = 1) (h : nextStep s = .ok s')
    (hocc : ∀ tr ∈ s.trackers, 0 < tr.occ ∧ 0 < tr.dur)
    (hinv : ∀ tr ∈ s.trackers, OnSchedule s.t tr) :
    s'.t = s.t + 1 ∧ ∀ tr ∈ s'.trackers, OnSchedule s'.t tr := by
  obtain ⟨hrel, ht, -⟩ := nextStep_rel s s' h
  rw [hdt] at ht hrel
  refine ⟨ht, ?_⟩
  intro b hb
  obtain ⟨a, ha, hab⟩ := forall₂_mem_right hrel b hb
  obtain ⟨⟨-, ho, hd, -⟩, hst⟩ := stepRel_spec _ _ a b hab
  obtain ⟨i1, i2, i3⟩ := hinv a ha
  have hpos := hocc a ha
  rw [ht]
  unfold OnSchedule
  rw [← ho, ← hd]
  unfold lifeStatus at hst
  cases hs : a.status <;> cases hk : a.kind <;> cases hbs : b.status <;>
    simp only [hs, hk, hbs, Status.rank] at hst i1 i2 i3 ⊢ <;> grind

/-- the invariant along a run of `k` successful steps from any on-schedule state -/
theorem run_timeline (k : Nat) : ∀ (s s' : Sim d), s.dt = 1 → runN k s = some s' →
    (∀ tr ∈ s.trackers, 0 < tr.occ ∧ 0 < tr.dur) → (∀ tr ∈ s.trackers, OnSchedule s.t tr) →
    s'.t = s.t + k ∧ ∀ tr ∈ s'.trackers, OnSchedule s'.t tr := by
  induction k with
  | zero =>
    intro s s' _ h _ hinv
    simp only [runN, Option.some.injEq] at h
    subst h
    exact ⟨rfl, hinv⟩
  | succ k ih =>
    intro s s' hdt h hocc hinv
    unfold runN at h
    split at h
    · rename_i s1 h1
      obtain ⟨ht1, hinv1⟩ := status_timeline_step s s1 hdt h1 hocc hinv
      obtain ⟨hrel, -, hdt1⟩ := nextStep_rel s s1 h1
      have hocc1 : ∀ tr ∈ s1.trackers, 0 < tr.occ ∧ 0 < tr.dur := by
        intro b hb
        obtain ⟨a, ha, hab⟩ := forall₂_mem_right hrel b hb
        obtain ⟨⟨-, ho, hd, -⟩, -⟩ := stepRel_spec _ _ a b hab
        rw [← ho, ← hd]
        exact hocc a ha
      obtain ⟨ht', hinv'⟩ := ih s1 s' (by rw [hdt1, hdt]) h hocc1 hinv1
      exact ⟨by rw [ht', ht1]; omega, hinv'⟩
    · cases h

/-- … hence holds at every step of every run that starts with all events pending at `t = 0` -/
theorem status_timeline (k : Nat) (s s' : Sim d) (hdt : s.dt = 1) (ht : s.t = 0) (h : runN k s = some s')
    (hocc : ∀ tr ∈ s.trackers, 0 < tr.occ ∧ 0 < tr.dur)
    (hpend : ∀ tr ∈ s.trackers, tr.status = .pending) :
    s'.t = k ∧ ∀ tr ∈ s'.trackers, OnSchedule k tr := by
  have hinv : ∀ tr ∈ s.trackers, OnSchedule s.t tr := by
    intro tr htr
    rw [ht]
    refine ⟨fun _ => hpend tr htr, fun h0 => ?_, fun h0 => ?_⟩ <;> omega
  obtain ⟨h1, h2⟩ := run_timeline k s s' hdt h hocc hinv
  rw [ht, Nat.zero_add] at h1
  rw [h1] at h2
  exact ⟨h1, h2⟩

/-- during step `t` itself (after the life-cycle phase) an event is in force iff `occ ≤ t`:
    the capacity used by production at step `t = occ` already accounts for it -/
theorem shock_in_force (t : Nat) (tr : Tracker d) (hocc : 0 < tr.occ ∧ 0 < tr.dur) (h : OnSchedule t tr) :
    (t < tr.occ → lifeStatus t 1 tr = .pending) ∧
    (tr.occ ≤ t ∧ t < tr.occ + tr.dur → lifeStatus t 1 tr = .happening) ∧
    (t = tr.occ + tr.dur → lifeStatus t 1 tr = (match tr.kind with | .rebuild => Status.rebuilding | _ => Status.recovering)) := by
  obtain ⟨i1, i2, i3⟩ := h
  unfold lifeStatus
  cases hs : tr.status <;> simp only [hs, Status.rank] at i1 i2 i3 ⊢ <;> grind

/-- a pending event contributes nothing to the economy -/
theorem pending_invisible (trs : List (Tracker d)) (h : ∀ tr ∈ trs, tr.status = .pending) (i : Ind d) :
    lostCapital trs i = 0 ∧ arbDelta trs i = 0 ∧ anyRebuilding trs = false := by
  obtain ⟨h1, h2, h3⟩ := pending_lost trs h
  exact ⟨by rw [h1], by rw [h2], h3⟩

/-- everything before the earliest occurrence is identical to the same simulation without events -/
theorem prefix_event_free (k : Nat) (s s' : Sim d) (hdt : s.dt = 1) (ht : s.t = 0)
    (hpend : ∀ tr ∈ s.trackers, tr.status = .pending)
    (hocc : ∀ tr ∈ s.trackers, k ≤ tr.occ)          -- steps 0 … k-1 are all before every occurrence
    (hd0 : ∀ i, s.econ.deltaTot i = 0) (hnb : s.nBlocks = 0)
    (h : runN k s = some s') :
    ∃ s0, runN k { s with trackers := [] } = some s0 ∧ s'.econ = s0.econ ∧ s'.t = s0.t := by
  have _ := hd0   -- not needed: `eventsPre` overwrites `deltaTot` in both runs
  have _ := hnb
  have hrun := prefix_run k s s' hdt hpend (fun tr htr => by rw [ht, Nat.zero_add]; exact hocc tr htr) h
  exact ⟨s'.forget, hrun, rfl, rfl⟩

end Boario
