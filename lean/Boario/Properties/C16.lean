/-
  C16 — Records are faithful, complete and unaffected by how they are observed.
  Proved on the record-layer model and on the tables regenerated from the source on every run
  (`Boario.Gen.*`).  Partial: that a memmap file read back with the documented dtype and shape equals
  the memory, and that the JSON artefacts on disk equal the dictionaries, is OS / library behaviour:
  checked by reading back, not proved.
-/
import Boario.Records
import Boario.Lemmas.RunLog
import Boario.Gen.NextStep
import Boario.Properties.PhaseOrder
import Boario.Gen.RecordSpecs
import Mathlib.Tactic.Linarith

namespace Boario.Records
open Boario.Gen

variable {V : Type}

/-- `k` successful steps; step number `j` (taken at time `j * dt`) has the values `vals j` -/
def okRun (vals : Nat → Rec → V) (k : Nat) : List ((Rec → V) × StepEnd) :=
  (List.range k).map fun j => (vals j, StepEnd.ok)

/-- the log after a step that does not end `ok` -/
theorem runLog_stop (c : Cfg) (dt : Nat) (v : Rec → V) (e : StepEnd) (he : e ≠ .ok)
    (rest : List ((Rec → V) × StepEnd)) (t : Nat) (log : Log V) :
    runLog c dt ((v, e) :: rest) t log = (writeStep c t v e log, t) := by
  cases e with
  | ok => exact absurd rfl he
  | crash => rfl
  | excIn ph => rfl

theorem okRun_eq (vals : Nat → Rec → V) (k : Nat) : okRun vals k = okRunFrom vals 0 k := by
  simp [okRun, okRunFrom, List.range_eq_range']

/-- `k` successful steps followed by `rest`: `rest` continues at time `k * dt` from the log reached -/
theorem runLog_okRun_append (c : Cfg) (dt : Nat) (vals : Nat → Rec → V) (k : Nat)
    (rest : List ((Rec → V) × StepEnd)) :
    runLog c dt (okRun vals k ++ rest) 0 emptyLog
      = runLog c dt rest (k * dt) (runLog c dt (okRun vals k) 0 emptyLog).1 := by
  rw [okRun_eq, runLog_okRunFrom_append, Nat.zero_add]

/-- the time reached after `k` successful steps of length `dt` -/
theorem run_time (c : Cfg) (dt : Nat) (vals : Nat → Rec → V) (k : Nat) :
    (runLog c dt (okRun vals k) 0 emptyLog).2 = k * dt := by
  rw [okRun_eq, runLog_okRunFrom_time, Nat.zero_add]

/-- row `t` of every tracked record equals the model's value of that variable at the step taken at
    time `t` (step number `j`, time `j * dt`), for every step length … -/
theorem rows_faithful (c : Cfg) (dt : Nat) (hdt : 0 < dt) (vals : Nat → Rec → V) (k : Nat) (r : Rec) (j : Nat)
    (hj : j < k) (hr : tracked c r = true) :
    (runLog c dt (okRun vals k) 0 emptyLog).1 r (j * dt) = some (vals j r) := by
  have := runLog_okRunFrom_row c dt hdt vals k 0 0 emptyLog r j hj hr
  rw [okRun_eq]
  simpa using this

/-- … rows of temporal units at which no step was simulated keep the fill value (rows after the end
    of the run, and with `dt > 1` the rows between two steps) … -/
theorem rows_fill (c : Cfg) (dt : Nat) (vals : Nat → Rec → V) (k : Nat) (r : Rec) (t : Nat)
    (ht : ∀ j, j < k → t ≠ j * dt) :
    (runLog c dt (okRun vals k) 0 emptyLog).1 r t = none := by
  rw [okRun_eq, runLog_okRunFrom_other]
  · rfl
  · intro j hj
    rw [Nat.zero_add]
    exact ht j hj

/-- … an untracked record (stocks without `register_stocks`) is never written … -/
theorem untracked_never_written (c : Cfg) (dt : Nat) (steps : List ((Rec → V) × StepEnd)) (r : Rec) (t : Nat)
    (hr : tracked c r = false) : (runLog c dt steps 0 emptyLog).1 r t = none := by
  exact runLog_untracked c dt r hr steps 0 emptyLog (fun _ => rfl) t

/-- … and all of this is independent of which records are kept in files (storage mode, subset saved) -/
theorem storage_independent (c c' : Cfg) (dt : Nat) (h : c.registerStocks = c'.registerStocks)
    (steps : List ((Rec → V) × StepEnd)) :
    runLog c dt steps 0 emptyLog = runLog c' dt steps 0 emptyLog := by
  exact runLog_congr c c' dt h steps 0 emptyLog

/-- when a run stops early (crash flag or exception at step number `k`), the rows already written stay
    intact, all other rows keep the fill value, and row `k * dt` holds for each record either its value
    of that step or the fill value -/
theorem early_stop_intact (c : Cfg) (dt : Nat) (hdt : 0 < dt) (vals : Nat → Rec → V) (k : Nat) (e : StepEnd)
    (he : e ≠ .ok) (rest : List ((Rec → V) × StepEnd)) (r : Rec) (hr : tracked c r = true) :
    let log := (runLog c dt (okRun vals k ++ (vals k, e) :: rest) 0 emptyLog).1
    (∀ j, j < k → log r (j * dt) = some (vals j r)) ∧
    (∀ t, (∀ j, j ≤ k → t ≠ j * dt) → log r t = none) ∧
    (log r (k * dt) = some (vals k r) ∨ log r (k * dt) = none) ∧
    (runLog c dt (okRun vals k ++ (vals k, e) :: rest) 0 emptyLog).2 = k * dt := by
  intro log
  have hlog : log = writeStep c (k * dt) (vals k) e (runLog c dt (okRun vals k) 0 emptyLog).1 := by
    simp only [log, runLog_okRun_append, runLog_stop c dt (vals k) e he]
  refine ⟨?_, ?_, ?_, ?_⟩
  · intro j hj
    rw [hlog]
    have h1 : j * dt ≠ k * dt := fun h => by
      have := Nat.eq_of_mul_eq_mul_right hdt h
      omega
    simp only [writeStep, h1, false_and, if_false]
    exact rows_faithful c dt hdt vals k r j hj hr
  · intro t ht
    rw [hlog]
    have h1 : t ≠ k * dt := ht k (Nat.le_refl k)
    simp only [writeStep, h1, false_and, if_false]
    exact rows_fill c dt vals k r t (fun j hj => ht j (Nat.le_of_lt hj))
  · rw [hlog]
    by_cases hw : written e (phaseOf r) = true
    · left; simp [writeStep, hr, hw]
    · right
      have hfill : (runLog c dt (okRun vals k) 0 emptyLog).1 r (k * dt) = none := by
        refine rows_fill c dt vals k r (k * dt) (fun j hj h => ?_)
        have := Nat.eq_of_mul_eq_mul_right hdt h
        omega
      simp [writeStep, hw, hfill]
  · simp only [runLog_okRun_append, runLog_stop c dt (vals k) e he]

/-- a crash (negative inventory during distribution) leaves the records of the earlier phases of the
    crashing step written and those of the distribution phase at their fill value -/
theorem crash_row (c : Cfg) (dt : Nat) (hdt : 0 < dt) (vals : Nat → Rec → V) (k : Nat) (r : Rec)
    (hr : tracked c r = true) :
    (runLog c dt (okRun vals k ++ [(vals k, StepEnd.crash)]) 0 emptyLog).1 r (k * dt)
      = if phaseOf r = .distribution then none else some (vals k r) := by
  rw [runLog_okRun_append, runLog_stop c dt (vals k) _ (by decide)]
  have hfill : (runLog c dt (okRun vals k) 0 emptyLog).1 r (k * dt) = none := by
    refine rows_fill c dt vals k r (k * dt) (fun j hj h => ?_)
    have := Nat.eq_of_mul_eq_mul_right hdt h
    omega
  cases r <;> simp [writeStep, hfill, hr, written, phaseOf, Phase.idx]

/-- driving the simulation one step at a time or through the loop is the same list of steps: the log
    of a run is the log of its first `i` steps continued with the remaining ones -/
theorem stepwise_eq_loop (c : Cfg) (dt : Nat) (vals : Nat → Rec → V) (i k : Nat) (hi : i ≤ k) :
    runLog c dt (okRun vals k) 0 emptyLog
      = runLog c dt ((List.range' i (k - i)).map fun j => (vals j, StepEnd.ok)) (i * dt)
          (runLog c dt (okRun vals i) 0 emptyLog).1 := by
  have h := runLog_okRunFrom_append c dt vals i 0 0 emptyLog (okRunFrom vals i (k - i))
  have h2 := okRunFrom_append vals 0 i (k - i)
  rw [Nat.zero_add] at h2
  rw [h2, Nat.add_sub_cancel' hi, Nat.zero_add] at h
  rw [okRun_eq, okRun_eq, h]
  rfl

/-! ### regenerated from the source: the write guards and tables of `Simulation` -/

/-- every record's guard tests its *own* attribute name, against the file list first and the in-memory
    list second -/
def guardOK : Item → Bool
  | .write a la b lb _ => a == b && la == "self._files_to_record" && lb == "self._vars_to_record"
  | _ => true

theorem guards_complete : nextStepSkeleton.all guardOK = true := by
  decide

/-- the helper called under a guard writes the attribute the guard names, at the row of the current step -/
def helperOK (helpers : List (String × String × String)) : Item → Bool
  | .write a _ _ _ h => helpers.any fun x => "self." ++ x.1 == h && x.2.1 == "self." ++ a && x.2.2 == "self.current_temporal_unit"
  | _ => true

theorem helpers_write_own_row : nextStepSkeleton.all (helperOK writeHelpers) = true := by
  decide

/-- the attribute written for each record, and the phase it is written after, as the model assumes -/
def attrOf : Rec → String
  | .productionRealised => "_production_evolution" | .productionCapacity => "_production_cap_evolution"
  | .finalDemand => "_final_demand_evolution" | .intermediateDemand => "_io_demand_evolution"
  | .rebuildDemand => "_rebuild_demand_evolution" | .overproduction => "_overproduction_evolution"
  | .finalDemandUnmet => "_final_demand_unmet_evolution" | .rebuildProd => "_rebuild_production_evolution"
  | .inputsStocks => "_inputs_evolution" | .limitingInputs => "_limiting_inputs_evolution"
  | .capitalToRecover => "_regional_sectoral_productive_capital_destroyed_evolution"

/-- the record tables are a bijection onto the eleven records of the model, with the documented fill values -/
theorem specs_bijective :
    possibleRecords = allRecs.map Rec.name ∧
    recordSpecs.map (fun s => (s.1, s.2.2.1)) = allRecs.map (fun r => (r.name, attrOf r)) ∧
    recordSpecs.map (fun s => s.2.2.2.2) = allRecs.map (fun r => if r = .limitingInputs then "-1" else "np.nan") := by
  refine ⟨by decide, by decide, by decide⟩

/-- position (index of the preceding model call) of each record's write in `next_step` agrees with `phaseOf` -/
def callBefore (items : List Item) (attr : String) : Option String :=
  let rec go (last : String) : List Item → Option String
    | [] => none
    | .call n :: rest => go n rest
    | .ifStepGt _ n :: rest => go n rest
    | .write a _ _ _ _ :: rest => if a == attr then some last else go last rest
    | _ :: rest => go last rest
  go "" items

def phaseCall : Phase → String
  | .events => "self._check_happening_events" | .overprod => "self.model.calc_overproduction"
  | .production => "self.model.calc_production" | .distribution => "self.model.distribute_production"

theorem writes_after_their_phase :
    allRecs.all (fun r => callBefore nextStepSkeleton (attrOf r) == some (phaseCall (phaseOf r))) = true := by
  decide

end Boario.Records
