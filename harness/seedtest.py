"""Run registered checks against every seeded change.

The change is applied to a scratch worktree of /repo's HEAD, and the checks run from a scratch copy of /verif
(both outside /repo and /verif, removed afterwards) with BOARIO_REPO pointing at the worktree: neither /repo nor
/verif (generated Lean files, build output, evidence) is touched, so this can run next to other work.  Results (exit status, VIOLATION line, what the replay says failed) go to
seeded/RESULTS.json.

    python -m harness.seedtest [names...] [--thorough] [--props C01,C02] [--jobs N]
"""
import json, subprocess, sys, os, shutil, tempfile
from pathlib import Path

VERIF = Path(__file__).resolve().parent.parent
SEEDED = VERIF / "seeded"


def sh(c, cwd=None, timeout=3600, env=None):
    return subprocess.run(c, shell=True, cwd=cwd, capture_output=True, text=True, timeout=timeout, env=env)


def describe(replay_path):
    try:
        d = json.loads(Path(replay_path).read_text())
    except Exception:
        return None
    if d.get("kind") == "no-failing-input-found":
        return {"kind": d["kind"], "what": f"{d.get('broken_obligation_kind')}: {str(d.get('broken_obligation'))[:200]}"}
    v = d.get("violation") or {}
    return {"kind": d.get("kind"), "what": str(v.get("what") or v.get("phase") or v)[:200],
            "source": "corpus trigger " + str(d["trigger"]) if d.get("trigger") else
                      ("scenario seed %s stream %s" % (d["scenario"].get("seed"), d["scenario"].get("stream")) if d.get("scenario") else "special stream"),
            "n_violations": len(d.get("all") or [])}


def main(names, tier="quick", props=None):
    results = {}
    wt = Path(tempfile.mkdtemp(prefix="seedwt_", dir="/tmp"))
    out = Path(tempfile.mkdtemp(prefix="seedout_", dir="/tmp"))
    vcopy = Path(tempfile.mkdtemp(prefix="seedverif_", dir="/tmp"))
    shutil.rmtree(wt)
    shutil.rmtree(vcopy)
    shutil.copytree(VERIF, vcopy, symlinks=True, ignore=shutil.ignore_patterns(".git", "replays", "__pycache__", "seeded"))
    import time
    for attempt in range(5):          # (several workers may add worktrees at the same moment)
        r = sh(f"git -C /repo worktree add --detach {wt} HEAD")
        if r.returncode == 0:
            break
        time.sleep(2 + attempt)
        sh(f"git -C /repo worktree prune")
    assert r.returncode == 0, r.stderr
    env = dict(os.environ, BOARIO_REPO=str(wt), VERIF_OUT=str(out))
    try:
        for d in sorted(SEEDED.iterdir()):
            if not d.is_dir():
                continue
            if names and d.name not in names and d.name.split("-")[0] not in names:
                continue
            meta = json.loads((d / "meta.json").read_text())
            pid = meta["property"]
            r = sh(f"git -C {wt} apply {d/'patch.diff'}")
            if r.returncode != 0:
                # (the tree has moved since the change was written: try a three-way merge, keep the working tree only)
                r = sh(f"git -C {wt} apply --3way {d/'patch.diff'} && git -C {wt} reset -q")
            if r.returncode != 0:
                sh(f"git -C {wt} checkout -- . ; git -C {wt} reset -q --hard")
                results[d.name] = {"status": "patch does not apply"}; print(d.name, results[d.name]); continue
            try:
                for p in (props or [pid]):
                    r = sh(f"./check {p} {tier}", cwd=str(vcopy), env=env)
                    line = [l for l in r.stdout.splitlines() if l.startswith("VIOLATION")]
                    entry = {"exit": r.returncode, "line": line[0] if line else (r.stdout.strip().splitlines() or [""])[-1][:200]}
                    if line:
                        rp = [w for w in line[0].split() if w.startswith("replay=")]
                        if rp:
                            entry["caught_by"] = describe(rp[0][7:])
                        entry["line"] = line[0].replace(str(out), "<out>")
                    results[f"{d.name}:{p}"] = entry
                    print(d.name, p, entry["exit"], (entry.get("caught_by") or {}).get("what", entry["line"])[:150], flush=True)
            finally:
                sh(f"git -C {wt} checkout -- .")
    finally:
        sh(f"git -C /repo worktree remove --force {wt}")
        shutil.rmtree(out, ignore_errors=True)
        shutil.rmtree(vcopy, ignore_errors=True)
    return results


if __name__ == "__main__":
    args = sys.argv[1:]
    tier = "quick"
    if "--thorough" in args:
        tier = "thorough"; args.remove("--thorough")
    props = None
    if "--props" in args:
        i = args.index("--props"); props = args[i+1].split(","); del args[i:i+2]
    save = "--save" in args
    if save:
        args.remove("--save")
    res = main(args, tier, props)
    if save:
        path = Path(os.environ["SEEDTEST_RESULTS"]) if os.environ.get("SEEDTEST_RESULTS") else SEEDED / "RESULTS.json"
        old = json.loads(path.read_text()) if path.exists() else {}
        old.update(res)
        path.write_text(json.dumps(old, indent=1, sort_keys=True))
