/-
  Lemmas on `Records.runLog`: a prefix of successful steps writes exactly its own rows (row `j * dt`
  for step number `j`).
-/
import Boario.Records

namespace Boario.Records

variable {V : Type}

/-- `k` successful steps, step numbers `j0, …, j0 + k - 1`, with the values `vals j` -/
def okRunFrom (vals : Nat → Rec → V) (j0 k : Nat) : List ((Rec → V) × StepEnd) :=
  (List.range' j0 k).map fun j => (vals j, StepEnd.ok)

theorem okRunFrom_zero (vals : Nat → Rec → V) (j0 : Nat) : okRunFrom vals j0 0 = [] := by
  simp [okRunFrom]

theorem okRunFrom_succ (vals : Nat → Rec → V) (j0 k : Nat) :
    okRunFrom vals j0 (k + 1) = (vals j0, StepEnd.ok) :: okRunFrom vals (j0 + 1) k := by
  simp [okRunFrom, List.range'_succ]

theorem okRunFrom_append (vals : Nat → Rec → V) (j0 i k : Nat) :
    okRunFrom vals j0 i ++ okRunFrom vals (j0 + i) k = okRunFrom vals j0 (i + k) := by
  simp only [okRunFrom, ← List.map_append]
  congr 1
  have := List.range'_append (s := j0) (m := i) (n := k) (step := 1)
  rw [Nat.one_mul] at this
  exact this

/-- a run of successful steps followed by `rest`: `rest` continues from the log and the time reached -/
theorem runLog_okRunFrom_append (c : Cfg) (dt : Nat) (vals : Nat → Rec → V) (k : Nat) :
    ∀ (j0 t0 : Nat) (log : Log V) (rest : List ((Rec → V) × StepEnd)),
    runLog c dt (okRunFrom vals j0 k ++ rest) t0 log
      = runLog c dt rest (t0 + k * dt) (runLog c dt (okRunFrom vals j0 k) t0 log).1 := by
  induction k with
  | zero =>
    intro j0 t0 log rest
    simp [okRunFrom_zero, runLog]
  | succ k ih =>
    intro j0 t0 log rest
    rw [okRunFrom_succ, List.cons_append]
    simp only [runLog]
    rw [ih]
    congr 1
    rw [Nat.succ_mul]; omega

/-- the time reached after `k` successful steps -/
theorem runLog_okRunFrom_time (c : Cfg) (dt : Nat) (vals : Nat → Rec → V) (k : Nat) :
    ∀ (j0 t0 : Nat) (log : Log V),
    (runLog c dt (okRunFrom vals j0 k) t0 log).2 = t0 + k * dt := by
  induction k with
  | zero =>
    intro j0 t0 log
    simp [okRunFrom_zero, runLog]
  | succ k ih =>
    intro j0 t0 log
    rw [okRunFrom_succ]
    simp only [runLog]
    rw [ih, Nat.succ_mul]; omega

/-- rows that are not the row of one of the `k` steps are unchanged -/
theorem runLog_okRunFrom_other (c : Cfg) (dt : Nat) (vals : Nat → Rec → V) (k : Nat) :
    ∀ (j0 t0 : Nat) (log : Log V) (r : Rec) (row : Nat),
    (∀ j, j < k → row ≠ t0 + j * dt) →
    (runLog c dt (okRunFrom vals j0 k) t0 log).1 r row = log r row := by
  induction k with
  | zero =>
    intro j0 t0 log r row _
    simp [okRunFrom_zero, runLog]
  | succ k ih =>
    intro j0 t0 log r row h
    rw [okRunFrom_succ]
    simp only [runLog]
    rw [ih]
    · have h0 : row ≠ t0 := by simpa using h 0 (Nat.succ_pos k)
      simp [writeStep, h0]
    · intro j hj
      have := h (j + 1) (Nat.succ_lt_succ hj)
      rw [Nat.succ_mul] at this
      omega

/-- the row of step number `j0 + j` holds the values of that step (steps of positive length) -/
theorem runLog_okRunFrom_row (c : Cfg) (dt : Nat) (hdt : 0 < dt) (vals : Nat → Rec → V) (k : Nat) :
    ∀ (j0 t0 : Nat) (log : Log V) (r : Rec) (j : Nat), j < k → tracked c r = true →
    (runLog c dt (okRunFrom vals j0 k) t0 log).1 r (t0 + j * dt) = some (vals (j0 + j) r) := by
  induction k with
  | zero => intro j0 t0 log r j hj; omega
  | succ k ih =>
    intro j0 t0 log r j hj hr
    rw [okRunFrom_succ]
    simp only [runLog]
    cases j with
    | zero =>
      rw [runLog_okRunFrom_other]
      · simp [writeStep, hr, written]
      · intro j' _
        have : 0 ≤ j' * dt := Nat.zero_le _
        omega
    | succ j =>
      have h1 : t0 + (j + 1) * dt = (t0 + dt) + j * dt := by rw [Nat.succ_mul]; omega
      have h2 : j0 + (j + 1) = (j0 + 1) + j := by omega
      rw [h1, h2]
      exact ih _ _ _ _ _ (by omega) hr

theorem writeStep_congr (c c' : Cfg) (h : c.registerStocks = c'.registerStocks) (t : Nat)
    (v : Rec → V) (e : StepEnd) (log : Log V) : writeStep c t v e log = writeStep c' t v e log := by
  have ht : ∀ r, tracked c r = tracked c' r := fun r => by simp only [tracked, h]
  funext r row
  simp only [writeStep, ht]

theorem runLog_congr (c c' : Cfg) (dt : Nat) (h : c.registerStocks = c'.registerStocks)
    (steps : List ((Rec → V) × StepEnd)) : ∀ (t : Nat) (log : Log V),
    runLog c dt steps t log = runLog c' dt steps t log := by
  induction steps with
  | nil => intro t log; rfl
  | cons p rest ih =>
    intro t log
    obtain ⟨v, e⟩ := p
    cases e <;> simp only [runLog, writeStep_congr c c' h, ih]

theorem runLog_untracked (c : Cfg) (dt : Nat) (r : Rec) (hr : tracked c r = false)
    (steps : List ((Rec → V) × StepEnd)) : ∀ (t : Nat) (log : Log V),
    (∀ row, log r row = none) → ∀ row, (runLog c dt steps t log).1 r row = none := by
  induction steps with
  | nil => intro t log hl row; exact hl row
  | cons p rest ih =>
    intro t log hl row
    obtain ⟨v, e⟩ := p
    have hw : ∀ row, writeStep c t v e log r row = none := by
      intro row; simp [writeStep, hr, hl]
    cases e
    · simp only [runLog]; exact ih _ _ hw row
    · simp only [runLog]; exact hw row
    · simp only [runLog]; exact hw row

end Boario.Records
