/-
  C20 — Bad inputs are rejected and no run silently produces non-finite numbers.
  In the exact model "non-finite" can only arise from a division the code does not guard or from an
  exception; the theorems are: (i) the documented rejections, (ii) from any well-formed state a step
  ends in `ok`, `crashed` or `rejected` (never an unexpected exception), and every physical quantity of
  an `ok` state is non-negative, (iii) well-formedness is established by the constructors and preserved.
  Partial: float overflow is outside the model.
-/
import Boario.Lemmas.Sums
import Boario.Invariant
import Boario.Lemmas.InitOK
import Boario.Lemmas.Inv
import Boario.Properties.C07

namespace Boario
variable {d : Dims}

/-! ### rejections -/

/-- psi above 1 is rejected by the constructor -/
theorem psi_above_one_rejected (c : Config d) (h : c.isPsi = true) (hp : 1 < c.psi) : cfgRejected c := by
  exact ⟨h, hp⟩

/-- schedules outside the horizon are rejected at admission -/
theorem schedule_outside_horizon_rejected (T : Nat) (ev : EventSpec d)
    (h : ev.occ = 0 ∨ T < ev.occ ∨ T < ev.occ + ev.dur) : ¬ admitted T ev := by
  unfold admitted
  omega

/-- destroying more capital than an industry owns is rejected when it comes into force -/
theorem excess_capital_rejected (s : Sim d)
    (h : ∃ i, s.p.K i < lostCapital (lifecycle s.t s.dt s.trackers s.nBlocks).1 i) :
    nextStep s = .rejected := by
  unfold nextStep
  rw [excess_loss_rejected s h]
  rfl

/-- a state with negative production capacity is rejected, never simulated -/
theorem negative_capacity_rejected (p : Params d) (e : Econ d) (h : capNegative p e.deltaTot e.alpha) :
    productionPhase p e = .rejected ∧ orders p e = .rejected := by
  unfold productionPhase orders
  rw [if_pos h, if_pos h]
  exact ⟨rfl, rfl⟩

/-! ### well-formedness is established … -/

/-- by the constructors, from a non-negative table and an accepted configuration -/
theorem params_ok (tb : Table d) (c : Config d)
    (hz : ∀ i j, 0 ≤ tb.Z i j) (hy : ∀ i cc, 0 ≤ tb.Y i cc) (hx : ∀ f, 0 ≤ tb.x f)
    (hdt : 0 < c.dt) (hyear : 0 < c.yearFactor) (hinv : ∀ s v, c.inventories s = some v → 0 < v)
    (hpsi : c.isPsi = true → 0 ≤ c.psi) (hrest : ∀ s, 0 < c.restTau s)
    (hb : 1 ≤ c.aBase ∧ c.aBase ≤ c.aMax) (htau : (c.dt : Rat) ≤ c.alphaTau) :
    ParamsOK (mkParams tb c) := by
  exact mkParams_ok tb c hz hy hx hdt hyear hinv hpsi hrest hb htau

theorem init_econ_ok (p : Params d) (h : ParamsOK p) : EconOK p (initEcon p) := by
  exact initEcon_ok p h

/-- ledgers of a freshly tracked event are non-negative -/
theorem tracker_init_ok (tb : Table d) (mf : Rat) (L : Nat) (ev : EventSpec d)
    (hz : ∀ i j, 0 ≤ tb.Z i j) (hy : ∀ i cc, 0 ≤ tb.Y i cc)
    (himp : ∀ i, 0 ≤ ev.impact i) (hh : ∀ h, ev.house = some h → ∀ c, 0 ≤ h c)
    (hsh : ∀ s, 0 ≤ ev.shares s) (hf : 0 ≤ ev.factor) (hemf : 0 < ev.emf) (hmf : 0 < mf) (htau : 0 < ev.tau) :
    TrackerOK (trackerInit tb mf L ev) := by
  exact trackerInit_ok tb mf L ev hz hy himp hh hsh hf hemf hmf htau

/-! ### … and preserved -/

/-- every step from a well-formed state leaves a well-formed state -/
theorem inv_step (s s' : Sim d) (h : nextStep s = .ok s') (hi : Inv s) : Inv s' := by
  exact (inv_step_full s s' h hi).1

/-- … with, in addition, non-negative deliveries to rebuilding, unmet final demand within
    [0, final demand] and a share of capacity lost that is non-negative -/
theorem step_quantities_nonneg (s s' : Sim d) (h : nextStep s = .ok s') (hi : Inv s) :
    (∀ f, 0 ≤ s'.econ.fdUnmet f) ∧ (∀ b ∈ s'.econ.rebProd, BlockNonneg b) ∧ (∀ f, 0 ≤ s'.econ.deltaTot f) := by
  exact (inv_step_full s s' h hi).2

/-- no step from a well-formed state ends in an unexpected exception: it is `ok`, the crashed flag,
    or a documented rejection -/
theorem no_silent_failure (s : Sim d) (hi : Inv s) : nextStep s ≠ .internal := by
  exact nextStep_not_internal s hi

/-- hence along every run -/
theorem inv_reach (k : Nat) (s s' : Sim d) (h : runN k s = some s') (hi : Inv s) : Inv s' := by
  induction k generalizing s with
  | zero =>
    simp only [runN] at h
    injection h with h
    subst h
    exact hi
  | succ k ih =>
    simp only [runN] at h
    split at h
    · rename_i s1 hs1
      exact ih s1 h (inv_step s s1 hs1 hi)
    · cases h

end Boario

namespace Boario
variable {d : Dims}

/-- the numeric rejections of the event constructors, one by one -/
theorem event_tau_rejected (ev : EventSpec d) (h : ev.tau = 0) : eventRejected ev := Or.inl h

theorem event_schedule_rejected (ev : EventSpec d) (h : ev.occ = 0 ∨ ev.dur = 0) : eventRejected ev := by
  rcases h with h | h
  · exact Or.inr (Or.inl h)
  · exact Or.inr (Or.inr (Or.inl h))

theorem event_negative_impact_rejected (ev : EventSpec d) (i : Ind d) (h : ev.impact i < 0) : eventRejected ev :=
  Or.inr (Or.inr (Or.inr (Or.inl ⟨i.1, i.2, h⟩)))

theorem event_empty_impact_rejected (ev : EventSpec d) (h : ∀ i, ev.impact i = 0) : eventRejected ev :=
  Or.inr (Or.inr (Or.inr (Or.inr (Or.inl fun r s => h (r, s)))))

theorem event_excess_loss_rejected (ev : EventSpec d) (hk : ev.kind = .arbitrary) (i : Ind d) (h : 1 < ev.impact i) :
    eventRejected ev :=
  Or.inr (Or.inr (Or.inr (Or.inr (Or.inr (Or.inl ⟨hk, i.1, i.2, h⟩)))))

theorem event_shares_rejected (ev : EventSpec d) (hk : ev.kind = .rebuild) (h : ¬ sharesSumOK ev) : eventRejected ev :=
  Or.inr (Or.inr (Or.inr (Or.inr (Or.inr (Or.inr (Or.inl ⟨hk, h⟩))))))

theorem event_negative_share_rejected (ev : EventSpec d) (hk : ev.kind = .rebuild) (s : Fin d.n) (h : ev.shares s < 0) :
    eventRejected ev :=
  Or.inr (Or.inr (Or.inr (Or.inr (Or.inr (Or.inr (Or.inr ⟨hk, Or.inl ⟨s, h⟩⟩))))))

theorem event_nonpositive_factor_rejected (ev : EventSpec d) (hk : ev.kind = .rebuild) (h : ev.factor ≤ 0) :
    eventRejected ev :=
  Or.inr (Or.inr (Or.inr (Or.inr (Or.inr (Or.inr (Or.inr ⟨hk, Or.inr h⟩))))))

/-- an event that is not rejected has positive characteristic time, occurrence and duration and a
    non-negative, non-empty impact: the hypotheses of `tracker_init_ok` and of the schedule theorems -/
theorem event_accepted (ev : EventSpec d) (h : ¬ eventRejected ev) :
    0 < ev.tau ∧ 0 < ev.occ ∧ 0 < ev.dur ∧ (∀ i, 0 ≤ ev.impact i) ∧ (∃ i, ev.impact i ≠ 0) := by
  unfold eventRejected at h
  simp only [not_or, not_exists, not_forall, not_lt] at h
  obtain ⟨h1, h2, h3, h4, h5, _, _, _⟩ := h
  refine ⟨Nat.pos_of_ne_zero h1, Nat.pos_of_ne_zero h2, Nat.pos_of_ne_zero h3, fun i => h4 i.1 i.2, ?_⟩
  obtain ⟨r, s, hrs⟩ := h5
  exact ⟨(r, s), hrs⟩

/-- an accepted rebuilding event has non-negative shares that pass the sum test and a positive factor, so the
    reconstruction demand it creates is non-negative -/
theorem event_accepted_rebuild (ev : EventSpec d) (h : ¬ eventRejected ev) (hk : ev.kind = .rebuild) :
    sharesSumOK ev ∧ (∀ s, 0 ≤ ev.shares s) ∧ 0 < ev.factor := by
  unfold eventRejected at h
  simp only [not_or, not_and, not_exists, not_lt, not_le, Classical.not_not] at h
  obtain ⟨_, _, _, _, _, _, h7, h8⟩ := h
  obtain ⟨h8a, h8b⟩ := h8 hk
  exact ⟨h7 hk, h8a, h8b⟩

/-- the sign hypotheses of `tracker_init_ok` on shares and factor are what the validators establish: a rebuilding event
    that the constructors accept starts with non-negative ledgers (before the repair F37 the code accepted negative
    shares adding up to 1 and non-positive factors, and `tracker_init_ok` could not be applied to them) -/
theorem tracker_init_ok_accepted (tb : Table d) (mf : Rat) (L : Nat) (ev : EventSpec d)
    (hz : ∀ i j, 0 ≤ tb.Z i j) (hy : ∀ i cc, 0 ≤ tb.Y i cc)
    (hh : ∀ h, ev.house = some h → ∀ c, 0 ≤ h c) (hemf : 0 < ev.emf) (hmf : 0 < mf)
    (hacc : ¬ eventRejected ev) (hk : ev.kind = .rebuild) :
    TrackerOK (trackerInit tb mf L ev) := by
  obtain ⟨htau, _, _, himp, _⟩ := event_accepted ev hacc
  obtain ⟨_, hsh, hf⟩ := event_accepted_rebuild ev hacc hk
  exact tracker_init_ok tb mf L ev hz hy himp hh hsh (le_of_lt hf) hemf hmf htau

end Boario
