/-
  C12 — Distributing a scalar impact preserves the total and the requested shares.
-/
import Boario.Lemmas.Sums
import Boario.Impact
import Boario.Lemmas.Impact

namespace Boario.Impact

/-- sum of the supplied weights over the affected labels -/
def weightSum (w : Labelled) (aff : List Nat) : Rat := total (aff.map fun k => (k, (lookup w k).getD 0))

/-- the per-industry impacts add up to the scalar -/
theorem distribute_sum (impact : Rat) (aff : List Nat) (w : Option Labelled) (l : Labelled)
    (h : distributeIndustries impact aff w = .ok l) : total l = impact := by
  obtain ⟨_, hne, s, hs, hf⟩ := distributeIndustries_ok h
  rw [fromSeries_total hf, total_map_mul, levelDistrib_total hne hs, mul_one]

/-- they are positive -/
theorem distribute_pos (impact : Rat) (aff : List Nat) (w : Option Labelled) (l : Labelled)
    (h : distributeIndustries impact aff w = .ok l) : ∀ p ∈ l, 0 < p.2 := by
  obtain ⟨_, _, s, _, hf⟩ := distributeIndustries_ok h
  exact (fromSeries_ok hf).2

/-- equal shares: every listed industry gets impact / number of industries, and exactly the listed
    industries are covered -/
theorem distribute_equal (impact : Rat) (aff : List Nat) (l : Labelled)
    (h : distributeIndustries impact aff none = .ok l) :
    l.map (·.1) = aff ∧ ∀ p ∈ l, p.2 = impact / (aff.length : Rat) := by
  obtain ⟨himp, hne, s, hs, hf⟩ := distributeIndustries_ok h
  rw [levelDistrib_none] at hs
  injection hs with hs
  subst hs
  have hlen : (aff.length : Rat) ≠ 0 := by simpa using hne
  rw [List.map_map] at hf
  have hl := fromSeries_eq_of_ne_zero hf (by
    intro p hp
    obtain ⟨k, _, rfl⟩ := List.mem_map.1 hp
    simp only [Function.comp]
    exact mul_ne_zero (ne_of_gt himp) (one_div_ne_zero hlen))
  subst hl
  constructor
  · rw [List.map_map]
    exact List.map_id' _
  · intro p hp
    obtain ⟨k, _, rfl⟩ := List.mem_map.1 hp
    simp only [Function.comp]
    rw [mul_one_div]

/-- supplied weights: shares are the weights restricted to the affected set, renormalised there -/
theorem distribute_proportional (impact : Rat) (aff : List Nat) (w l : Labelled)
    (h : distributeIndustries impact aff (some w) = .ok l) :
    ∀ p ∈ l, p.1 ∈ aff ∧ p.2 = impact * ((lookup w p.1).getD 0 / weightSum w aff) := by
  obtain ⟨_, _, s, hs, hf⟩ := distributeIndustries_ok h
  obtain ⟨_, _, hs⟩ := levelDistrib_some_ok hs
  subst hs
  intro p hp
  have hp := fromSeries_mem hf p hp
  rw [List.map_map] at hp
  obtain ⟨k, hk, rfl⟩ := List.mem_map.1 hp
  exact ⟨hk, rfl⟩

/-- with positive weights the result covers exactly the requested industries, in the requested order -/
theorem distribute_support (impact : Rat) (aff : List Nat) (w l : Labelled)
    (h : distributeIndustries impact aff (some w) = .ok l)
    (hpos : ∀ k ∈ aff, ∃ v, lookup w k = some v ∧ 0 < v) :
    l.map (·.1) = aff := by
  obtain ⟨himp, _, s, hs, hf⟩ := distributeIndustries_ok h
  obtain ⟨_, htot, hs⟩ := levelDistrib_some_ok hs
  subst hs
  rw [List.map_map] at hf
  have hl := fromSeries_eq_of_ne_zero hf (by
    intro p hp
    obtain ⟨k, hk, rfl⟩ := List.mem_map.1 hp
    obtain ⟨v, hv, hvpos⟩ := hpos k hk
    simp only [Function.comp, hv, Option.getD_some]
    exact mul_ne_zero (ne_of_gt himp) (div_ne_zero (ne_of_gt hvpos) htot))
  subst hl
  rw [List.map_map]
  exact List.map_id' _

/-- rejections -/
theorem reject_nonpositive_impact (impact : Rat) (aff : List Nat) (w : Option Labelled) (h : impact ≤ 0) :
    distributeIndustries impact aff w = .error .nullImpact := by
  simp [distributeIndustries, h]

theorem reject_empty_selection (impact : Rat) (w : Option Labelled) (h : 0 < impact) :
    distributeIndustries impact [] w = .error .empty := by
  simp [distributeIndustries, not_le.2 h]

theorem reject_missing_weight (impact : Rat) (aff : List Nat) (w : Labelled) (h : 0 < impact) (hne : aff ≠ [])
    (k : Nat) (hk : k ∈ aff) (hm : lookup w k = none) :
    distributeIndustries impact aff (some w) = .error .weightsMissing := by
  have hemp : aff.isEmpty = false := by
    cases aff with
    | nil => exact absurd rfl hne
    | cons _ _ => rfl
  have hall : (aff.all fun k => (lookup w k).isSome) = false := by
    rw [List.all_eq_false]
    exact ⟨k, hk, by simp [hm]⟩
  simp [distributeIndustries, not_le.2 h, hemp, levelDistrib, hall]

theorem reject_negative_entry (l : Labelled) (p : Nat × Rat) (hp : p ∈ l) (hneg : p.2 < 0) :
    fromSeries l = .error .negative := by
  have hemp : l.isEmpty = false := by
    cases l with
    | nil => cases hp
    | cons _ _ => rfl
  have hany : ((l.filter fun p => p.2 ≠ 0).any fun p => p.2 ≤ 0) = true := by
    rw [List.any_eq_true]
    refine ⟨p, List.mem_filter.2 ⟨hp, by simpa using ne_of_lt hneg⟩, by simpa using le_of_lt hneg⟩
  have hne : (l.filter fun p => p.2 ≠ 0).isEmpty = false := by
    cases hf : (l.filter fun p => p.2 ≠ 0) with
    | nil => rw [hf] at hany; simp at hany
    | cons _ _ => rfl
  simp only [fromSeries, hemp, hne, Bool.false_eq_true, if_false]
  rw [if_pos hany]

theorem reject_negative_weight (impact : Rat) (aff : List Nat) (w : Labelled) (h : 0 < impact)
    (hall : ∀ k ∈ aff, (lookup w k).isSome = true) (htot : 0 < weightSum w aff)
    (k : Nat) (hk : k ∈ aff) (v : Rat) (hv : lookup w k = some v) (hneg : v < 0) :
    distributeIndustries impact aff (some w) = .error .negative := by
  have hemp : aff.isEmpty = false := by
    cases aff with
    | nil => cases hk
    | cons _ _ => rfl
  have hall' : (aff.all fun k => (lookup w k).isSome) = true := by
    rw [List.all_eq_true]
    exact hall
  have htot' : total (aff.map fun k => (k, (lookup w k).getD 0)) ≠ 0 := ne_of_gt htot
  simp only [distributeIndustries, not_le.2 h, hemp, levelDistrib, hall', if_true, if_false, htot']
  apply reject_negative_entry _ (k, impact * (v / weightSum w aff))
  · simp only [List.map_map]
    refine List.mem_map.2 ⟨k, hk, ?_⟩
    simp [hv, weightSum]
  · exact mul_neg_of_pos_of_neg h (div_neg_of_neg_of_pos hneg htot)

/-- regions × sectors: the affected set is the product, the share of (r, s) is the product of the
    renormalised regional and sectoral weights, and the impacts add up to the scalar -/
theorem regions_sectors_sum (impact : Rat) (regs secs : List Nat) (nSec : Nat) (wr ws : Option Labelled)
    (l : Labelled) (h : regionsSectors impact regs secs nSec wr ws = .ok l) : total l = impact := by
  obtain ⟨_, hr, hs, sr, ss, hsr, hss, hf⟩ := regionsSectors_ok h
  rw [fromSeries_total hf, total_flatMap_outer, levelDistrib_total hr hsr, levelDistrib_total hs hss]
  ring

theorem regions_sectors_product (impact : Rat) (regs secs : List Nat) (nSec : Nat) (wr ws : Labelled)
    (l : Labelled) (h : regionsSectors impact regs secs nSec (some wr) (some ws) = .ok l) :
    ∀ p ∈ l, ∃ r ∈ regs, ∃ s ∈ secs, p.1 = pairLabel nSec r s ∧
      p.2 = impact * (((lookup wr r).getD 0 / weightSum wr regs) * ((lookup ws s).getD 0 / weightSum ws secs)) := by
  obtain ⟨_, _, _, sr, ss, hsr, hss, hf⟩ := regionsSectors_ok h
  obtain ⟨_, _, hsr⟩ := levelDistrib_some_ok hsr
  obtain ⟨_, _, hss⟩ := levelDistrib_some_ok hss
  subst hsr hss
  intro p hp
  have hp := fromSeries_mem hf p hp
  obtain ⟨pr, hpr, hp⟩ := List.mem_flatMap.1 hp
  obtain ⟨ps, hps, rfl⟩ := List.mem_map.1 hp
  obtain ⟨r, hr, rfl⟩ := List.mem_map.1 hpr
  obtain ⟨s, hs, rfl⟩ := List.mem_map.1 hps
  exact ⟨r, hr, s, hs, rfl, rfl⟩

end Boario.Impact
