"""Corpus of minimised past failures: one trigger per finding of DESIGN.md §7.  Every trigger runs the
implementation on a concrete input and evaluates the property it belongs to; it returns
(holds, detail).  The corpus runs first in every check of the properties listed for the trigger.
On the unrepaired tree (pinned commit) every `fixed` trigger fails; `/verif/findings/prefix.log` keeps
that run."""
from __future__ import annotations

import copy
import random
import tempfile
import traceback

from harness.common import quiet_loop, np
from harness import scen

import pandas as pd  # noqa: E402
from boario import event as bev  # noqa: E402
from boario.simulation import Simulation  # noqa: E402
from boario.extended_models import ARIOPsiModel  # noqa: E402


def base_table(kind="dense", m=2, n=3, k=1, seed=1, scale=1000.0):
    return scen.gen_table(random.Random(seed), m=m, n=n, k=k, kind=kind, scale=scale, labels="plain")


def base_cfg(**over):
    cfg = {
        "class": "psi", "order_type": "alt", "alpha_base": 1.0, "alpha_max": 1.25, "alpha_tau": 365,
        "rebuild_tau": 60, "main_inv_dur": 90, "monetary_factor": 10**6, "dt": 1, "year_factor": 365,
        "inf_sect": None, "inventory_dict": None, "capital": {"kind": "default"}, "psi": 0.8,
        "restoration_tau": 60,
    }
    cfg.update(over)
    return cfg


def mk_sc(tb=None, cfg=None, events=(), T=20, **sim):
    s = {"register_stocks": False, "save_records": [], "events_mode": "one"}
    s.update(sim)
    return {"seed": 0, "stream": "corpus", "table": tb or base_table(), "model": cfg or base_cfg(), "T": T,
            "events": list(events), "sim": s}


def capital_of(tb, cfg):
    return np.asarray(scen.build_model(tb, cfg).productive_capital, dtype=float).ravel()


def reb_event(tb, cfg, inds=(("rA", "agri"),), frac=0.1, occ=2, dur=1, tau=2, sectors=None, factor=1.0, emf=None,
              house=None):
    regs, secs, cats = scen.labels(tb)
    K = capital_of(tb, cfg)
    mf = cfg["monetary_factor"]
    emf = emf if emf is not None else mf
    imp = {}
    for r, s in inds:
        i = regs.index(r) * len(secs) + secs.index(s)
        imp[f"{r}|{s}"] = float(K[i] * frac * mf / emf)
    return {"type": "rebuild", "occ": occ, "dur": dur, "name": None, "emf": emf, "impact": imp, "house": house,
            "rebuild_tau": tau, "reb_sectors": sectors or {"build": 1.0}, "factor": factor}


def rec_event(tb, cfg, inds=(("rA", "agri"),), frac=0.1, occ=2, dur=1, tau=3, curve="linear", emf=None, house=None):
    ev = reb_event(tb, cfg, inds, frac, occ, dur, emf=emf, house=house)
    ev = {kk: v for kk, v in ev.items() if kk not in ("rebuild_tau", "reb_sectors", "factor")}
    ev.update({"type": "recovery", "recovery_tau": tau, "curve": curve})
    return ev


def arb_event(inds=(("rA", "agri"),), loss=0.5, occ=2, dur=1, tau=3, curve="linear"):
    return {"type": "arbitrary", "occ": occ, "dur": dur, "name": None, "impact": {f"{r}|{s}": loss for r, s in inds},
            "recovery_tau": tau, "curve": curve}


def run_loop(sc, outdir=None):
    sim = scen.build_sim(sc, outdir=outdir)
    quiet_loop(sim)
    return sim


def guarded(fn):
    def w():
        try:
            return fn()
        except Exception as e:  # an exception inside a trigger is a failure of the property it checks
            return False, f"raised {type(e).__name__}: {e} | {traceback.format_exc().splitlines()[-3].strip()}"
    w.__name__ = fn.__name__
    w.__doc__ = fn.__doc__
    return w


TRIGGERS = {}


def trigger(fid, props):
    def deco(fn):
        TRIGGERS[fid] = {"fn": guarded(fn), "props": props, "doc": (fn.__doc__ or "").strip()}
        return fn
    return deco


@trigger("F1", ["C01", "C06", "C20"])
def f1():
    """event-free `noalt` run on a table with a structurally unused input"""
    tb = base_table("sparse", seed=0)
    sc = mk_sc(tb, base_cfg(order_type="noalt"), T=5)
    sim = run_loop(sc)
    prod = sim.production_realised.to_numpy()
    ok = np.isfinite(prod).all() and np.allclose(prod, sim.model.X_0, rtol=1e-9)
    return ok, f"production finite and at equilibrium: {ok}"


@trigger("F2", ["C16"])
def f2():
    """in-memory `overproduction` record after a default run"""
    sim = run_loop(mk_sc(T=5))
    rec = sim.overproduction.to_numpy()
    ok = np.isfinite(rec).all() and np.allclose(rec, 1.0)
    return ok, f"overproduction rows written: {np.isfinite(rec).all()}"


@trigger("F3", ["C17"])
def f3():
    """two simulations with default output directory saving the same record"""
    tb = base_table()
    sc1 = mk_sc(tb, base_cfg(), events=[rec_event(tb, base_cfg())], T=6, save_records=["production_realised"])
    sim1 = scen.build_sim(sc1)
    quiet_loop(sim1)
    before = sim1.production_realised.to_numpy().copy()
    sc2 = mk_sc(tb, base_cfg(), T=6, save_records=["production_realised"])
    sim2 = scen.build_sim(sc2)
    after = sim1.production_realised.to_numpy()
    ok = np.array_equal(before, after, equal_nan=True)
    return ok, f"records of the first simulation unchanged by constructing a second one: {ok}"


@trigger("F4", ["C17"])
def f4():
    """caller's households_impact Series after building an event"""
    tb = base_table(k=2)
    hh = pd.Series({("rB", "house"): 5.0, ("rA", "gov"): 3.0})
    keep = hh.copy(deep=True)
    names = list(hh.index.names)
    bev.from_series(pd.Series({("rA", "agri"): 100.0}), event_type="recovery", occurrence=1, duration=1,
                    recovery_tau=3, households_impact=hh, event_monetary_factor=10**6)
    ok = list(hh.index) == list(keep.index) and list(hh.index.names) == names and hh.equals(keep)
    return ok, f"households_impact untouched: {ok} (index now {list(hh.index)}, names {list(hh.index.names)})"


@trigger("F5", ["C15"])
def f5():
    """capital vector given as a Series in permuted label order"""
    tb = base_table()
    N = tb["m"] * tb["n"]
    x = [sum(tb["Z"][i]) + sum(tb["Y"][i]) for i in range(N)]
    cfg = base_cfg(capital={"kind": "series", "values": [xi * (1 + i) for i, xi in enumerate(x)]})
    a = np.asarray(scen.build_model(tb, cfg).productive_capital, dtype=float).ravel()
    b = np.asarray(scen.build_model(tb, cfg, capital_perm=list(reversed(range(N)))).productive_capital, dtype=float).ravel()
    ok = np.array_equal(a, b)
    return ok, f"capital identical under permutation of the Series: {ok}"


@trigger("F6", ["C13", "C08"])
def f6():
    """rebuilding event whose monetary factor differs from the model's: destroyed capital after rebuilding starts"""
    tb = base_table()
    cfg = base_cfg()
    ev = reb_event(tb, cfg, frac=0.1, occ=2, dur=2, tau=30, emf=10**3)
    sim = run_loop(mk_sc(tb, cfg, [ev], T=8))
    rec = sim.productive_capital_to_recover.to_numpy().sum(axis=1)
    ok = bool(rec[5] <= rec[3] * (1 + 1e-9)) and not sim.has_crashed
    return ok, f"destroyed capital rows 3..5: {rec[3:6]}"


@trigger("F7", ["C11"])
def f7():
    """two concurrent rebuilding events with household damage"""
    tb = base_table()
    cfg = base_cfg()
    h = {"rA|gov": 1.0}
    e1 = reb_event(tb, cfg, occ=2, dur=1, tau=30, house=h)
    e2 = reb_event(tb, cfg, inds=(("rB", "manu"),), occ=3, dur=1, tau=30, house={"rB|gov": 2.0})
    sim = run_loop(mk_sc(tb, cfg, [e1, e2], T=8))
    return True, "ran"


@trigger("F8", ["C11"])
def f8():
    """a rebuilding event finishes while another is still rebuilding, and a third one starts later"""
    tb = base_table()
    cfg = base_cfg()
    e1 = reb_event(tb, cfg, frac=0.001, occ=2, dur=1, tau=1)
    e2 = reb_event(tb, cfg, inds=(("rB", "manu"),), frac=0.05, occ=2, dur=1, tau=30)
    e3 = reb_event(tb, cfg, inds=(("rB", "agri"),), frac=0.01, occ=16, dur=1, tau=30)
    sim = run_loop(mk_sc(tb, cfg, [e1, e2, e3], T=30))
    st = [t.status for t in sim._event_tracking]
    return st[0] == "finished", f"statuses {st}"


@trigger("F9", ["C10", "C07"])
def f9():
    """arbitrary capacity loss must be in force at the step of its occurrence"""
    tb = base_table()
    cfg = base_cfg()
    sim = run_loop(mk_sc(tb, cfg, [arb_event(loss=0.5, occ=3, dur=2, tau=3)], T=8))
    cap = sim.production_capacity.to_numpy()[:, 0]
    x0 = sim.model.X_0[0]
    ok = bool(abs(cap[3] - 0.5 * x0) <= 1e-9 * x0)
    return ok, f"capacity/x0 at rows 2..4: {cap[2:5] / x0}"


@trigger("F10", ["C08"])
def f10():
    """reconstruction demand created with two rebuilding sectors (0.7 / 0.3) and factor 0.9"""
    tb = base_table()
    cfg = base_cfg()
    ev = reb_event(tb, cfg, inds=(("rA", "agri"), ("rA", "build")), frac=0.1, sectors={"manu": 0.7, "build": 0.3}, factor=0.9)
    sim = scen.build_sim(mk_sc(tb, cfg, [ev]))
    tr = sim._event_tracking[0]
    tot = float(tr.distributed_reb_dem_indus.to_numpy().sum())
    want = sum(ev["impact"].values()) * 0.9
    ok = abs(tot - want) <= 1e-9 * want
    return ok, f"created {tot}, impact x factor = {want}"


@trigger("F11", ["C13"])
def f11():
    """the same recovering event expressed in units (factor 1) and in the model's unit (factor 1e6)"""
    tb = base_table()
    cfg = base_cfg()
    outs = []
    for emf in (10**6, 1):
        ev = rec_event(tb, cfg, frac=0.1234567, occ=2, dur=1, tau=7, emf=emf)
        sim = run_loop(mk_sc(tb, cfg, [ev], T=8))
        outs.append(sim.productive_capital_to_recover.to_numpy())
    diff = float(np.nanmax(np.abs(outs[0] - outs[1])))
    quantum = 10.0 ** -(int(np.log10(cfg["monetary_factor"])) + 1)
    ok = diff <= 2 * quantum
    return ok, f"max difference {diff} model units, model quantum {quantum}"


@trigger("F12", ["C16"])
def f12():
    """params_dict describes the run: alpha_tau"""
    cfg = base_cfg(alpha_tau=30)
    sim = scen.build_sim(mk_sc(cfg=cfg))
    ok = abs(float(sim.params_dict["alpha_tau"]) - 30) < 1e-9
    return ok, f"params_dict['alpha_tau'] = {sim.params_dict['alpha_tau']} for alpha_tau=30"


@trigger("F14", ["C20"])
def f14():
    """NaN impact must be rejected"""
    try:
        bev.from_series(pd.Series({("rA", "agri"): float("nan"), ("rA", "build"): 5.0}), event_type="recovery",
                        occurrence=1, duration=1, recovery_tau=3, event_monetary_factor=10**6)
    except ValueError:
        return True, "rejected"
    return False, "accepted"


@trigger("F15", ["C11"])
def f15():
    """an arbitrary event together with a capital event"""
    tb = base_table()
    cfg = base_cfg()
    sim = run_loop(mk_sc(tb, cfg, [arb_event(occ=2), rec_event(tb, cfg, inds=(("rB", "manu"),), occ=3)], T=10))
    return True, "ran"


@trigger("F15b", ["C11"])
def f15b():
    """recovering event whose industrial damage is recovered before its household damage, second event active"""
    tb = base_table()
    cfg = base_cfg()
    K = capital_of(tb, cfg)
    e1 = rec_event(tb, cfg, frac=1e-9, occ=2, dur=1, tau=2, curve="convexe", house={"rA|gov": 1000.0})
    e1["impact"] = {"rA|agri": 3e-7}
    e2 = rec_event(tb, cfg, inds=(("rB", "manu"),), occ=2, dur=1, tau=30)
    sim = run_loop(mk_sc(tb, cfg, [e1, e2], T=10))
    return True, "ran"


@trigger("F16", ["C11"])
def f16():
    """events passed at construction"""
    tb = base_table()
    cfg = base_cfg()
    sim = run_loop(mk_sc(tb, cfg, [rec_event(tb, cfg)], T=6, events_mode="ctor"))
    return len(sim.all_events) == 1, "constructed"


@trigger("F19", ["C11"])
def f19():
    """industrial ledger of a rebuilding event empties before its household ledger"""
    tb = base_table()
    cfg = base_cfg()
    ev = reb_event(tb, cfg, frac=0.05, occ=2, dur=1, tau=1, house={"rA|gov": 1.0})
    ev["impact"] = {"rA|agri": 2e-7}
    ev["house"] = {"rA|gov": 50.0}
    ev["rebuild_tau"] = 1
    sim = run_loop(mk_sc(tb, cfg, [ev], T=10))
    return True, "ran"


@trigger("F10b", ["C08"])
def f10b():
    """household reconstruction demand with three rebuilding sectors on a table with a single final-demand column"""
    tb = base_table(m=1, n=4, k=1, seed=5)
    cfg = base_cfg()
    ev = reb_event(tb, cfg, frac=0.05, sectors={"agri": 0.5, "build": 0.3, "serv": 0.2}, house={"rA|gov": 7.0})
    sim = scen.build_sim(mk_sc(tb, cfg, [ev]))
    tr = sim._event_tracking[0]
    tot = float(tr.distributed_reb_dem_house.to_numpy().sum())
    ok = abs(tot - 7.0) <= 1e-9 * 7.0
    return ok, f"household demand created {tot}, household impact x factor = 7.0"


@trigger("F13", ["C08", "C11", "C20"])
def f13():
    """rebuilding event whose affected industry buys nothing from its rebuilding sector (known finding)"""
    tb = base_table()
    regs, secs, cats = scen.labels(tb)
    n = tb["n"]
    j = 0  # rA|agri
    si = secs.index("build")
    for r in range(tb["m"]):
        tb["Z"][r * n + si][j] = 0.0
    cfg = base_cfg()
    ev = reb_event(tb, cfg, frac=0.05, occ=2, dur=1, tau=5)
    sim = run_loop(mk_sc(tb, cfg, [ev], T=8))
    rec = sim.rebuild_demand.to_numpy()[: sim.n_temporal_units_simulated]
    return bool(np.isfinite(rec).all()), "rebuild demand finite"


@trigger("F20", ["C02", "C14"])
def f20():
    """overproduction factor when demand falls below the previous production (negative scarcity)"""
    tb = base_table()
    cfg = base_cfg(alpha_tau=10, main_inv_dur=5)
    sim = scen.build_sim(mk_sc(tb, cfg, [], T=5))
    m = sim.model
    m.overprod[:] = 1.2
    m.production = m.X_0 * 1.3          # last production above the demand now addressed
    before = m.overprod.copy()
    m.calc_overproduction()
    want = before + (m.overprod_base - before) * m.overprod_tau
    ok = bool(np.allclose(m.overprod, want, rtol=1e-12))
    return ok, f"alpha {before[0]} -> {m.overprod[0]}, documented rule gives {want[0]}"


@trigger("F17", ["C20", "C09"])
def f17():
    """linear recovery with a step of two temporal units jumping over recovery_tau: damage must not go negative"""
    tb = base_table()
    cfg = base_cfg(dt=2)
    ev = rec_event(tb, cfg, frac=0.1, occ=2, dur=1, tau=2, curve="linear")
    sim = run_loop(mk_sc(tb, cfg, [ev], T=14))
    rec = sim.productive_capital_to_recover.to_numpy()[::2]
    ok = bool(np.nanmin(rec) >= 0)
    return ok, f"minimum recorded destroyed capital {np.nanmin(rec)}"


@trigger("F18", ["C18"])
def f18():
    """alt vs noalt orders when every supplier of an input has zero capacity (uniform relative capacity 0)"""
    tb = base_table()
    ev = arb_event(inds=(("rA", "build"), ("rB", "build")), loss=1.0, occ=2, dur=3, tau=2)
    outs = {}
    for ot in ("alt", "noalt"):
        sim = scen.build_sim(mk_sc(tb, base_cfg(order_type=ot), [ev], T=8))
        for _ in range(3):
            sim.next_step()
        outs[ot] = sim.model.intermediate_demand.copy()
    rows = [1, 4]          # the "build" industries of the two regions
    a, b = outs["alt"][rows, :].sum(), outs["noalt"][rows, :].sum()
    ok = bool(abs(a - b) <= 1e-9 * max(abs(a), abs(b)))
    return ok, f"orders addressed to the zero-capacity sector: alt {a}, noalt {b}"


@trigger("F21", ["C01"])
def f21():
    """event-free run, base class, alpha_base = 2, an infinite inventory for an input that a zero-output industry does not use"""
    import json
    from pathlib import Path
    sc = json.loads((Path(__file__).resolve().parent.parent / "findings" / "F21_scenario.json").read_text())
    sc["T"] = 40
    sim = run_loop(sc)
    p = sim.production_realised.to_numpy()
    x0 = sim.model.X_0
    with np.errstate(all="ignore"):
        dev = float(np.nanmax(np.abs(p - x0) / np.where(x0 > 0, x0, np.inf)))
    return dev <= 1e-9, f"largest relative deviation of production from equilibrium over 40 steps: {dev:.3g}"


@trigger("F22", ["C20", "C12"])
def f22():
    """an impact Series made only of zeros must be rejected like an empty one"""
    try:
        bev.from_series(pd.Series({("rA", "agri"): 0.0, ("rB", "manu"): 0.0}), event_type="recovery",
                        occurrence=1, duration=1, recovery_tau=3, event_monetary_factor=10**6)
    except ValueError:
        return True, "rejected"
    return False, "accepted: an event without any affected industry"


@trigger("F23", ["C13", "C09"])
def f23():
    """household damage of a recovery event declared through the scalar constructors must reach the event"""
    h = pd.Series({("rA", "gov"): 5.0})
    h.index = pd.MultiIndex.from_tuples(list(h.index), names=["region", "category"])
    kw = dict(event_type="recovery", occurrence=1, duration=1, recovery_tau=3, event_monetary_factor=10**6, households_impact=h)
    e1 = bev.from_scalar_industries(10.0, affected_industries=[("rA", "agri")], impact_distrib="equal", **kw)
    e2 = bev.from_scalar_regions_sectors(10.0, affected_regions=["rA"], affected_sectors=["agri"], impact_regional_distrib="equal",
                                         impact_sectoral_distrib="equal", **kw)
    got = [getattr(e, "impact_households", None) for e in (e1, e2)]
    ok = all(g is not None and float(g.sum()) == 5.0 for g in got)
    return ok, f"household impact held by the events: {[None if g is None else float(g.sum()) for g in got]}"


@trigger("F24", ["C09", "C10"])
def f24():
    """concave recovery with recovery_tau = 1 and a step of 3 temporal units: the damage must never increase (known finding)"""
    tb = base_table()
    cfg = base_cfg(dt=3)
    ev = rec_event(tb, cfg, frac=0.1, occ=4, dur=1, tau=1, curve="concave")
    sim = run_loop(mk_sc(tb, cfg, [ev], T=30))
    rec = sim.productive_capital_to_recover.to_numpy()[::3]
    tot = np.nansum(rec, axis=1)
    inc = [(i * 3, float(a), float(b)) for i, (a, b) in enumerate(zip(tot[2:], tot[3:]), start=2) if b > a * (1 + 1e-12) and a > 0]
    return not inc, f"recorded destroyed capital increases during recovery at {inc[:2]}"


@trigger("F25", ["C20"])
def f25():
    """a missing (NaN) entry in the final-demand table must be rejected, not simulated"""
    tb = base_table()
    io = scen.build_table(tb)
    y = io.Y.copy()
    y.iloc[1, 0] = float("nan")
    io.Y = y
    try:
        sim = Simulation(ARIOPsiModel(io), n_temporal_units_to_sim=4)
        sim.loop()
    except Exception:
        return True, "rejected / reported"
    bad = not np.isfinite(sim.final_demand_unmet.to_numpy(dtype=float)[:4]).all()
    return (not bad) or bool(sim.has_crashed), f"accepted; non-finite values recorded: {bad}; crashed flag: {sim.has_crashed}"


@trigger("F26", ["C08", "C04", "C11", "C20"])
def f26():
    """a households_impact vector that lists a column with no damage (explicit 0) must not poison the reconstruction demand"""
    tb = base_table(m=2, n=3, k=1)
    cfg = base_cfg()
    ev = reb_event(tb, cfg, frac=0.05, occ=2, dur=1, tau=4, house={"rA|gov": 40.0, "rB|gov": 0.0})
    try:
        sim = run_loop(mk_sc(tb, cfg, [ev], T=8))
    except Exception:
        return True, "rejected / reported"
    rd = sim.rebuild_demand.to_numpy(dtype=float)
    un = sim.final_demand_unmet.to_numpy(dtype=float)
    bad = bool(np.isnan(rd[2:8]).any() or np.isnan(un[:8]).any())
    return (not bad) or bool(sim.has_crashed), f"NaN recorded in rebuild_demand / final_demand_unmet: {bad}; crashed flag: {sim.has_crashed}"


@trigger("F27", ["C16"])
def f27():
    """the saved parameters report the inventory restoration time the model was built with, for a step length of 2"""
    tb = base_table()
    cfg = base_cfg(dt=2, restoration_tau=30, alpha_tau=365)
    cfg["class"] = "psi"
    cfg.setdefault("psi", 0.8)
    sim = scen.build_sim(mk_sc(tb, cfg, [], T=4))
    got = sim.params_dict.get("inventory_restoration_tau")
    ok = got is not None and all(abs(float(g) - 30.0) < 1e-9 for g in got)
    return ok, f"params_dict['inventory_restoration_tau'] = {got}"


@trigger("F28", ["C09", "C11"])
def f28():
    """a user recovery function with the documented parameter names in another order is evaluated, not refused at its first step"""
    tb = base_table()
    cfg = base_cfg()
    ev = rec_event(tb, cfg, frac=0.05, occ=2, dur=1, tau=4, curve="user_init_first")
    sim = run_loop(mk_sc(tb, cfg, [ev], T=10))
    rec = sim.productive_capital_to_recover.to_numpy(dtype=float).sum(axis=1)
    return bool(rec[3] > 0 and rec[5] < rec[3]), f"capital to recover at t = 3, 4, 5: {rec[3:6].tolist()}"


@trigger("F29", ["C16"])
def f29():
    """a run that only asks for the parameters file writes it"""
    import pathlib
    import shutil
    tb = base_table()
    cfg = base_cfg()
    d = tempfile.mkdtemp(prefix="verif_f29_")
    try:
        sim = Simulation(scen.build_model(tb, cfg), n_temporal_units_to_sim=4, save_params=True, boario_output_dir=d)
        quiet_loop(sim)
        found = list(pathlib.Path(d).rglob("simulated_params.json"))
        return bool(found), f"files written: {[f.name for f in pathlib.Path(d).rglob('*.json')]}"
    finally:
        shutil.rmtree(d, ignore_errors=True)


@trigger("F30", ["C16"])
def f30():
    """the saved description of an event follows its public setters"""
    tb = base_table()
    cfg = base_cfg()
    evo = scen.build_event(rec_event(tb, cfg, frac=0.05, occ=2, dur=1, tau=4))
    evo.occurrence = 5
    evo.duration = 2
    return evo.event_dict["occurrence"] == 5 and evo.event_dict["duration"] == 2, f"event_dict: {evo.event_dict['occurrence']}, {evo.event_dict['duration']}"


@trigger("F31", ["C20", "C08"])
def f31():
    """a negative household damage is refused"""
    tb = base_table(m=2, n=3, k=1)
    cfg = base_cfg()
    ev = reb_event(tb, cfg, frac=0.05, occ=2, dur=1, tau=4, house={"rA|gov": 40.0, "rB|gov": -10.0})
    try:
        sim = run_loop(mk_sc(tb, cfg, [ev], T=8))
    except Exception:
        return True, "rejected / reported"
    bad = bool(np.isnan(sim.rebuild_demand.to_numpy(dtype=float)[2:8]).any())
    return (not bad) or bool(sim.has_crashed), f"accepted; NaN recorded: {bad}"


@trigger("F32", ["C12"])
def f32():
    """an industry listed twice among the affected industries is that industry once"""
    e = bev.from_scalar_industries(900.0, event_type="recovery", recovery_tau=5, event_monetary_factor=10**6, occurrence=1, duration=1,
                                   affected_industries=[("rA", "agri"), ("rA", "agri"), ("rB", "agri")], impact_distrib="equal")
    imp = e.impact
    return (not imp.index.has_duplicates) and abs(float(imp.sum()) - 900.0) < 1e-9, f"impact: {imp.to_dict()}"


@trigger("F33", ["C20"])
def f33():
    """rebuilding shares with a NaN entry do not add up to 1: refused"""
    tb = base_table()
    cfg = base_cfg()
    ev = reb_event(tb, cfg, frac=0.05, occ=2, dur=1, tau=4, sectors={"build": 1.0, "manu": float("nan")})
    try:
        sim = run_loop(mk_sc(tb, cfg, [ev], T=8))
    except Exception:
        return True, "rejected / reported"
    bad = bool(np.isnan(sim.rebuild_demand.to_numpy(dtype=float)[2:8]).any())
    return (not bad) or bool(sim.has_crashed), f"accepted; NaN recorded: {bad}"


@trigger("F34", ["C15", "C07"])
def f34():
    """a capital vector with categorical index levels (categories in order of first appearance) is matched by label"""
    tb = base_table()
    regs, secs, cats = scen.labels(tb)
    N = len(regs) * len(secs)
    vals = [float(1000 * (i + 1)) for i in range(N)]
    cfg_a = base_cfg(capital={"kind": "series", "values": vals})
    cfg_b = base_cfg(capital={"kind": "series", "values": vals, "categorical": True})
    ka = np.asarray(scen.build_model(tb, cfg_a).productive_capital, dtype=float).ravel()
    kb = np.asarray(scen.build_model(tb, cfg_b).productive_capital, dtype=float).ravel()
    return bool(np.array_equal(ka, kb)), f"capital held: {ka[:3].tolist()} (plain index) / {kb[:3].tolist()} (categorical index)"


@trigger("F35", ["C07", "C20"])
def f35():
    """a capital vector given as a plain list, with an industry that has no capital: an event elsewhere leaves finite values"""
    tb = base_table()
    regs, secs, cats = scen.labels(tb)
    cfg0 = base_cfg()
    K = [float(v) for v in capital_of(tb, cfg0)]
    K[-1] = 0.0
    cfg = base_cfg(capital={"kind": "ndarray", "values": K, "as_list": True})
    ev = rec_event(tb, cfg0, frac=0.05, occ=1, dur=1, tau=3)
    sim = run_loop(mk_sc(tb, cfg, [ev], T=5))
    bad = bool(np.isnan(sim.production_realised.to_numpy(dtype=float)[:5]).any() or np.isnan(sim.production_capacity.to_numpy(dtype=float)[:5]).any())
    return not bad, f"NaN recorded: {bad}"


@trigger("F37", ["C20", "C08"])
def f37():
    """a rebuilding event with a negative share (shares adding up to 1) or a non-positive factor, small enough for no runtime guard to
    trip, is rejected; if it is accepted the reconstruction demand recorded is negative"""
    tb = base_table()
    cfg = base_cfg()
    out = []
    for over in ({"reb_sectors": {"build": 1.5, "manu": -0.5}}, {"factor": -1.0}, {"factor": 0.0}):
        ev = reb_event(tb, cfg)
        ev["impact"] = {k: v * 1e-3 for k, v in ev["impact"].items()}
        ev.update(over)
        try:
            sim = run_loop(mk_sc(tb, cfg, [ev], T=8))
            out.append(f"{over}: accepted, min rebuild demand {float(np.nanmin(sim.rebuild_demand.to_numpy(dtype=float))):.3g}")
        except Exception:
            pass
    return not out, "; ".join(out) or "rejected"


@trigger("F38", ["C20", "C07"])
def f38():
    """a capital vector (Series) without a value for one industry, or an array with a NaN entry, is rejected; accepted, it gives NaN records
    without any event"""
    tb = base_table()
    cfg0 = base_cfg()
    K = [float(v) for v in capital_of(tb, cfg0)]
    out = []
    for cap in ({"kind": "series", "values": K, "drop": 1}, {"kind": "ndarray", "values": [float("nan")] + K[1:]}):
        try:
            sim = run_loop(mk_sc(tb, base_cfg(capital=cap), [], T=4))
            n = int(np.isnan(sim.production_capacity.to_numpy(dtype=float)[:4]).sum())
            if n:
                out.append(f"{cap['kind']}: accepted, {n} NaN cells in production_capacity")
        except Exception:
            pass
    return not out, "; ".join(out) or "rejected"


@trigger("F39", ["C17"])
def f39():
    """an event built from the caller's own Series of rebuilding shares keeps its shares when the caller edits that Series afterwards"""
    import pandas as _pd
    from boario import event as _bev
    tb = base_table()
    regs, secs, cats = scen.labels(tb)
    rs = _pd.Series({secs[0]: 0.75, secs[1]: 0.25}, dtype=float)
    ev = _bev.from_series(scen._mi({f"{regs[0]}|{secs[0]}": 5.0}, ["region", "sector"]), event_type="rebuild", occurrence=1, duration=1,
                          rebuild_tau=2, rebuilding_sectors=rs, rebuilding_factor=1.0, event_monetary_factor=10**6)
    before = [float(v) for v in ev.rebuilding_sectors.to_numpy()]
    rs.iloc[:] = [0.25, 0.75]
    after = [float(v) for v in ev.rebuilding_sectors.to_numpy()]
    return before == after, f"shares held by the event before / after the caller's edit: {before} / {after}"


@trigger("F36", ["C01", "C19"])
def f36():
    """an event-free run of 300 steps with alt orders, the base class, alpha_max = 2 and alpha_tau = one step stays at the equilibrium (known finding)"""
    import json as _json
    from pathlib import Path as _Path
    sc = _json.loads((_Path(__file__).resolve().parent.parent / "findings" / "F36_scenario.json").read_text())
    sim = run_loop(sc)
    P = sim.production_realised.to_numpy(dtype=float)
    dev = float(np.max(np.abs(P[299] - P[0])) / np.max(np.abs(P[0])))
    return dev <= 1e-9, f"relative deviation of production from the initial equilibrium after 300 steps: {dev:.3g}"


def run_all(props=None, only=None):
    res = {}
    for fid, t in TRIGGERS.items():
        if props is not None and not (set(props) & set(t["props"])):
            continue
        if only is not None and fid not in only:
            continue
        ok, detail = t["fn"]()
        res[fid] = {"holds": bool(ok), "detail": detail, "props": t["props"], "doc": t["doc"]}
    return res


if __name__ == "__main__":
    import json
    import sys
    r = run_all(only=sys.argv[1:] or None)
    for fid, v in r.items():
        print(f"{fid:5s} {'holds' if v['holds'] else 'FAILS'}  [{','.join(v['props'])}] {v['doc']} :: {v['detail']}")
