/-
  Run-level corollaries: the per-step theorems of C03, C04, C05, C07, C08, C14 hold at every state
  reachable from a well-formed state (in particular from the constructors' initial state), by
  induction over the run (`inv_reach`).  Serves C03, C04, C05, C07, C08, C14.
-/
import Boario.Properties.C03
import Boario.Properties.C04
import Boario.Properties.C05
import Boario.Properties.C07
import Boario.Properties.C08
import Boario.Properties.C14
import Boario.Properties.C20

namespace Boario
variable {d : Dims}

/-- triangle inequality for the model's absolute value -/
theorem rabs_add_le (a b : Rat) : rabs (a + b) ≤ rabs a + rabs b := by
  unfold rabs; split_ifs <;> linarith

/-- C14 at every reachable state: the overproduction factor lies between 1 and its maximum -/
theorem alpha_bounds_reach (k : Nat) (s s' : Sim d) (h : runN k s = some s') (hi : Inv s) (f : Ind d) :
    1 ≤ s'.econ.alpha f ∧ s'.econ.alpha f ≤ s'.p.aMax := by
  exact (inv_reach k s s' h hi).econ.alpha_range f

/-- C05 at every reachable state: tracked inventories are non-negative -/
theorem stock_nonneg_reach_inv (k : Nat) (s s' : Sim d) (h : runN k s = some s') (hi : Inv s)
    (sec : Fin d.n) (f : Ind d) (hs : (s'.p.invDur sec).isSome = true) : 0 ≤ s'.econ.stock sec f := by
  exact (inv_reach k s s' h hi).econ.stock_nonneg sec f hs

/-- C03 at every reachable state: the production realised in the last step is non-negative, and the
    production of the *next* step is feasible and maximal (the hypotheses of C03 hold there) -/
theorem production_feasible_reach (k : Nat) (s s' s'' : Sim d) (h : runN k s = some s') (hi : Inv s)
    (h1 : eventsPre s' = .ok s'') (hcap : ¬ capNegative s''.p s''.econ.deltaTot s''.econ.alpha) :
    ProdHyp s''.p s''.econ.stock s''.econ.dTot s''.econ.deltaTot s''.econ.alpha := by
  have hi'' := inv_pre s' s'' h1 (inv_reach k s s' h hi)
  exact ⟨hi''.econ.stock_nonneg, hi''.econ.dTot_nonneg, (not_capNegative_iff _ _ _).1 hcap,
    hi''.params.a_nonneg, hi''.params.psi_nonneg, hi''.params.dur_pos⟩

/-- C05: with `psi · s ≥ 1` a real (above-threshold) input can never be driven negative: production is
    limited to what the inventory supports, so use never exceeds the stock.  (The crash path therefore
    needs `psi · s < 1`, or an input below the technology threshold whose suppliers fail.) -/
theorem no_crash_real_inputs (p : Params d) (e : Econ d)
    (h : ProdHyp p e.stock e.dTot e.deltaTot e.alpha)
    (hprod : ∀ f, e.prod f = production p e.stock (xOpt p e.dTot e.deltaTot e.alpha) f)
    (hdel : ∀ i j, 0 ≤ (deliveries e).orders i j)
    (sec : Fin d.n) (f : Ind d) (v : Rat) (hv : p.invDur sec = some v) (hthr : p.thr sec f = true)
    (hpsi : 1 ≤ p.psi * v) :
    0 ≤ stockUpdated p e (deliveries e).orders sec f := by
  have hadd : 0 ≤ stockAdd (deliveries e).orders sec f :=
    sumFin_nonneg _ _ fun r => hdel (r, sec) f
  have hP : 0 ≤ e.prod f := by
    rw [hprod]; exact production_nonneg p e.stock e.dTot e.deltaTot e.alpha h f
  have hPx : e.prod f ≤ xOpt p e.dTot e.deltaTot e.alpha f := by
    rw [hprod]
    exact le_min (production_le_demand p e.stock e.dTot e.deltaTot e.alpha h f)
      (production_le_capacity p e.stock e.dTot e.deltaTot e.alpha h f)
  have ha : 0 ≤ p.a sec f := h.a_nonneg sec f
  have hst : 0 ≤ e.stock sec f := h.stock_nonneg sec f (by rw [hv]; rfl)
  have huse : e.prod f * p.a sec f ≤ e.stock sec f := by
    by_cases hc : cons p (xOpt p e.dTot e.deltaTot e.alpha) sec f = 0
    · have hc' : xOpt p e.dTot e.deltaTot e.alpha f * p.a sec f * (p.psi * v) = 0 := by
        have : cons p (xOpt p e.dTot e.deltaTot e.alpha) sec f
            = xOpt p e.dTot e.deltaTot e.alpha f * p.a sec f * (p.psi * v) := by
          simp only [cons, durOrZero, hv]; ring
        rw [← this]; exact hc
      have hxa : xOpt p e.dTot e.deltaTot e.alpha f * p.a sec f = 0 := by
        rcases mul_eq_zero.1 hc' with h0 | h0
        · exact h0
        · linarith
      have : e.prod f * p.a sec f ≤ xOpt p e.dTot e.deltaTot e.alpha f * p.a sec f :=
        mul_le_mul_of_nonneg_right hPx ha
      linarith
    · have hs := production_le_stock_support p e.stock e.dTot e.deltaTot e.alpha h f sec v hthr hv hc
      rw [← hprod] at hs
      have hpa : 0 ≤ e.prod f * p.a sec f := mul_nonneg hP ha
      have : e.prod f * p.a sec f * 1 ≤ e.prod f * p.a sec f * (p.psi * v) :=
        mul_le_mul_of_nonneg_left hpsi hpa
      have e1 : e.prod f * p.a sec f * p.psi * v = e.prod f * p.a sec f * (p.psi * v) := by ring
      linarith
  unfold stockUpdated stockUse
  linarith

/-- C08 over a whole rebuilding: what remains after any sequence of deliveries differs from
    (created − Σ delivered) by at most half a quantum per step -/
theorem rebuild_conservation (prec : Nat) (rem0 : Rat) (dels : List Rat)
    (hfeas : ∀ (pre : List Rat) (x : Rat) (post : List Rat), dels = pre ++ x :: post →
        0 ≤ x ∧ x ≤ pre.foldl (settle prec) rem0) :
    rabs (dels.foldl (settle prec) rem0 - (rem0 - dels.sum)) ≤ (dels.length : Rat) * (quantum prec / 2) := by
  induction dels generalizing rem0 with
  | nil => simp [rabs]
  | cons x xs ih =>
    have hx := hfeas [] x xs rfl
    simp only [List.foldl_nil] at hx
    have h1 := settle_exact prec rem0 x hx.2
    have h2 := ih (settle prec rem0 x) (fun pre y post hxs =>
      hfeas (x :: pre) y post (by rw [hxs]; rfl))
    rw [List.foldl_cons, List.sum_cons, List.length_cons]
    have e1 : List.foldl (settle prec) (settle prec rem0 x) xs - (rem0 - (x + xs.sum))
        = (List.foldl (settle prec) (settle prec rem0 x) xs - (settle prec rem0 x - xs.sum))
          + (settle prec rem0 x - (rem0 - x)) := by ring
    rw [e1]
    refine le_trans (rabs_add_le _ _) ?_
    push_cast
    linarith

/-- C07: the capital stock is the user-supplied one when given, else value added × the declared ratio
    (× 4 by default), value added being output minus intermediate purchases, floored at 0 -/
theorem capital_ingest (tb : Table d) (c : Config d) (f : Ind d) :
    (mkParams tb c).K f =
      (match c.capital with
       | .vector k => k f
       | .ratio r => max 0 (tb.x f - sumInd d (fun i => tb.Z i f)) * r f.2
       | .default => max 0 (tb.x f - sumInd d (fun i => tb.Z i f)) * 4) := by
  show capitalOf tb c f = _
  unfold capitalOf valueAdded
  have hm : max 0 (tb.x f - sumInd d (fun i => tb.Z i f))
      = if tb.x f - sumInd d (fun i => tb.Z i f) < 0 then 0 else tb.x f - sumInd d (fun i => tb.Z i f) := by
    split_ifs with hlt
    · exact max_eq_left hlt.le
    · exact max_eq_right (not_lt.1 hlt)
  cases c.capital <;> simp only [hm]

/-- C06: the constructors' market shares satisfy `ShareSpec` (initial shares of a non-negative table) -/
theorem mkParams_shareSpec (tb : Table d) (c : Config d) (hz : ∀ i j, 0 ≤ tb.Z i j)
    (hdt : 0 < c.dt) (hyear : 0 < c.yearFactor) : ShareSpec (mkParams tb c) := by
  have hst := steply_pos' c hdt hyear
  exact ⟨fun i j => mul_nonneg (hz i j) hst.le, fun i j => zShare_steply tb (steply c) hst.ne' i j⟩

end Boario
