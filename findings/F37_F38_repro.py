import warnings, logging; warnings.simplefilter("ignore"); logging.disable(logging.CRITICAL)
import numpy as np, pandas as pd, pymrio
from boario.extended_models import ARIOPsiModel
from boario.simulation import Simulation
from boario.event import from_series
io = pymrio.load_test().calc_all()
io.aggregate(region_agg=["reg1","reg1","reg2","reg2","reg3","reg3"], sector_agg=["food","mining","manufactoring","other","construction","other","other","other"])
io.calc_all()
m0 = ARIOPsiModel(io)
cap = pd.Series(m0.productive_capital, index=m0.industries)
capm = cap.drop(("reg2","food"))
try:
    m = ARIOPsiModel(io, productive_capital_vector=capm)
    s = Simulation(m, n_temporal_units_to_sim=10); s.loop()
    print("A: accepted; NaN in production_capacity:", int(np.isnan(s.production_capacity.to_numpy()).sum()), "crashed", s.has_crashed)
except Exception as e: print("A rejected:", type(e).__name__, e)
for kw in (dict(rebuilding_sectors={"construction":1.5,"manufactoring":-0.5}, rebuilding_factor=1.0), dict(rebuilding_sectors={"construction":1.0}, rebuilding_factor=-1.0)):
    try:
        m = ARIOPsiModel(io)
        s = Simulation(m, n_temporal_units_to_sim=15)
        ev = from_series(pd.Series({("reg1","manufactoring"):1000.0}), event_type="rebuild", occurrence=2, duration=1, rebuild_tau=5, event_monetary_factor=10**6, **kw)
        s.add_event(ev); s.loop()
        print("B accepted", kw, "min rebuild_demand", float(np.nanmin(s.rebuild_demand.to_numpy())), "min rebuild_prod", float(np.nanmin(s.rebuild_prod.to_numpy())), "crashed", s.has_crashed)
    except Exception as e: print("B rejected:", kw, type(e).__name__, str(e)[:100])
