/-
  C06 — Orders conserve each industry's input needs across its suppliers.
-/
import Boario.Lemmas.Sums
import Boario.Lemmas.Orders

namespace Boario
variable {d : Dims}

/-- the gap the order phase actually uses (zero when all inventories are close to their goal) -/
def gapUsed (p : Params d) (e : Econ d) : Fin d.n → Ind d → Rat :=
  if ordersClose p e.stock (xOpt p e.dTot e.deltaTot e.alpha) then fun _ _ => 0
  else gapOpen p e.stock (xOpt p e.dTot e.deltaTot e.alpha)

/-- need of industry `j` for input `s`: inputs consumed this step plus the (class-specific share of the)
    gap to the inventory target -/
def needOf (p : Params d) (e : Econ d) (s : Fin d.n) (j : Ind d) : Rat :=
  needWith p (gapUsed p e) e.prod s j

/-- facts about the constants that `mkParams` establishes (proved for `mkParams` in `Boario.Init`) -/
structure ShareSpec (p : Params d) : Prop where
  z_nonneg : ∀ i j, 0 ≤ p.Z0 i j
  zshare_eq : ∀ i j, p.Zshare i j = safeDiv (p.Z0 i j) (sumFin d.m fun r => p.Z0 (r, i.2) j) 0

structure OrdersHyp (p : Params d) (e : Econ d) : Prop where
  a_nonneg : ∀ s f, 0 ≤ p.a s f
  prod_nonneg : ∀ f, 0 ≤ e.prod f
  rest_nonneg : ∀ s, 0 ≤ p.rest s
  x0_nonneg : ∀ f, 0 ≤ p.x0 f
  cap_nonneg : ∀ f, 0 ≤ capacity p e.deltaTot e.alpha f

section
variable (p : Params d) (e : Econ d)

/-- `calc_orders` either raises or writes `ordersFrom` with the gap actually used -/
theorem orders_ok_iff (e' : Econ d) (h : orders p e = .ok e') :
    ¬ ordersNegative (ordersFrom p e (gapUsed p e)) ∧ e'.orders = ordersFrom p e (gapUsed p e) := by
  unfold orders at h
  unfold gapUsed
  split_ifs at h with h1 h2
  · simp only [if_pos h2]
    unfold ordersClosed ordersFinish at h
    simp only at h
    split_ifs at h with h3
    injection h with h; subst h
    exact ⟨h3, rfl⟩
  · simp only [if_neg h2]
    unfold ordersOpen ordersFinish at h
    simp only at h
    split_ifs at h with h3
    injection h with h; subst h
    exact ⟨h3, rfl⟩

theorem gap_nonneg (h : OrdersHyp p e) (s : Fin d.n) (j : Ind d) : 0 ≤ gapUsed p e s j := by
  unfold gapUsed
  split_ifs
  · exact le_refl _
  · exact gapOpen_nonneg p _ _ h.rest_nonneg s j

/-- the need itself: inputs used, plus the restoration-rate share of the positive inventory gap -/
theorem need_eq (s : Fin d.n) (j : Ind d) :
    needOf p e s j = gapUsed p e s j + e.prod j * p.a s j := by
  rfl

theorem supplierShare_nonneg (hs : ShareSpec p) (h : OrdersHyp p e) (i j : Ind d) :
    0 ≤ supplierShare p e.deltaTot e.alpha i j := by
  unfold supplierShare
  split_ifs
  · exact altShare_nonneg p _ _ i j hs.z_nonneg h.x0_nonneg h.cap_nonneg
  · rw [hs.zshare_eq]
    exact safeDiv_nonneg (hs.z_nonneg _ _) (sumFin_nonneg _ _ fun r => hs.z_nonneg _ _) (le_refl _)

/-- the outcome of `calc_orders` is never the "negative orders" RuntimeError -/
theorem orders_no_internal (hs : ShareSpec p) (h : OrdersHyp p e) : orders p e ≠ .internal := by
  have hneg : ∀ gap : Fin d.n → Ind d → Rat, (∀ s j, 0 ≤ gap s j) →
      ¬ ordersNegative (ordersFrom p e gap) := by
    rintro gap hg ⟨r, s, r', s', hlt⟩
    refine absurd ?_ (not_le.2 hlt)
    unfold ordersFrom needWith
    exact mul_nonneg (add_nonneg (hg _ _) (mul_nonneg (h.prod_nonneg _) (h.a_nonneg _ _)))
      (supplierShare_nonneg p e hs h _ _)
  unfold orders
  split_ifs
  · simp
  · unfold ordersClosed ordersFinish
    simp only [if_neg (hneg _ fun _ _ => le_refl _)]
    simp
  · unfold ordersOpen ordersFinish
    simp only [if_neg (hneg _ fun s j => gapOpen_nonneg p _ _ h.rest_nonneg s j)]
    simp

theorem orders_nonneg (e' : Econ d) (h : orders p e = .ok e') (i j : Ind d) : 0 ≤ e'.orders i j := by
  obtain ⟨hn, ho⟩ := orders_ok_iff p e e' h
  rw [ho]
  obtain ⟨r, s⟩ := i
  obtain ⟨r', s'⟩ := j
  exact not_lt.1 fun hlt => hn ⟨r, s, r', s', hlt⟩

/-- the orders placed are need × supplier share -/
theorem orders_eq (e' : Econ d) (h : orders p e = .ok e') (i j : Ind d) :
    e'.orders i j = needOf p e i.2 j * supplierShare p e.deltaTot e.alpha i j := by
  rw [(orders_ok_iff p e e' h).2]
  rfl

/-- fixed shares are the initial market shares and sum to one -/
theorem shares_noalt (hs : ShareSpec p) (halt : p.alt = false) (s : Fin d.n) (j : Ind d)
    (hsup : (sumFin d.m fun r => p.Z0 (r, s) j) ≠ 0) :
    (∀ r, supplierShare p e.deltaTot e.alpha (r, s) j = p.Z0 (r, s) j / (sumFin d.m fun r' => p.Z0 (r', s) j)) ∧
    (sumFin d.m fun r => supplierShare p e.deltaTot e.alpha (r, s) j) = 1 := by
  have hsh : ∀ r, supplierShare p e.deltaTot e.alpha (r, s) j
      = safeDiv (p.Z0 (r, s) j) (sumFin d.m fun r' => p.Z0 (r', s) j) 0 := by
    intro r
    unfold supplierShare
    simp only [halt, Bool.false_eq_true, if_false]
    exact hs.zshare_eq (r, s) j
  constructor
  · intro r
    rw [hsh r]
    unfold safeDiv
    rw [if_neg hsup]
  · simp only [hsh]
    exact sumFin_safeDiv d.m (fun r => p.Z0 (r, s) j) hsup

/-- capacity-weighted shares are proportional to initial flow × relative capacity and sum to one -/
theorem shares_alt (halt : p.alt = true) (s : Fin d.n) (j : Ind d)
    (hsup : zCProd p e.deltaTot e.alpha s j ≠ 0) :
    (∀ r, supplierShare p e.deltaTot e.alpha (r, s) j
        = p.Z0 (r, s) j * rho p e.deltaTot e.alpha (r, s)
            / (sumFin d.m fun r' => p.Z0 (r', s) j * rho p e.deltaTot e.alpha (r', s))) ∧
    (sumFin d.m fun r => supplierShare p e.deltaTot e.alpha (r, s) j) = 1 := by
  have hsh : ∀ r, supplierShare p e.deltaTot e.alpha (r, s) j = altShare p e.deltaTot e.alpha (r, s) j := by
    intro r
    unfold supplierShare
    simp only [halt, if_true]
  constructor
  · intro r
    rw [hsh r]
    unfold altShare safeDiv
    rw [if_neg hsup]
    rfl
  · simp only [hsh]
    exact altShare_sum p _ _ s j hsup

/-- summed over supplying regions, orders equal the need whenever the shares sum to one -/
theorem orders_sum_of_shares (e' : Econ d) (h : orders p e = .ok e') (s : Fin d.n) (j : Ind d)
    (hone : (sumFin d.m fun r => supplierShare p e.deltaTot e.alpha (r, s) j) = 1) :
    (sumFin d.m fun r => e'.orders (r, s) j) = needOf p e s j := by
  simp only [orders_eq p e e' h]
  rw [sumFin_eq_sum] at hone ⊢
  rw [← Finset.mul_sum, hone, mul_one]

/-- fixed-share variant: summed over supplying regions, orders equal the need whenever the input
    has an initial supplier -/
theorem orders_sum_noalt (hs : ShareSpec p) (halt : p.alt = false) (e' : Econ d) (h : orders p e = .ok e')
    (s : Fin d.n) (j : Ind d) (hsup : (sumFin d.m fun r => p.Z0 (r, s) j) ≠ 0) :
    (sumFin d.m fun r => e'.orders (r, s) j) = needOf p e s j :=
  orders_sum_of_shares p e e' h s j (shares_noalt p e hs halt s j hsup).2

/-- capacity-weighted variant: the same whenever some initial supplier has capacity left -/
theorem orders_sum_alt (halt : p.alt = true) (e' : Econ d) (h : orders p e = .ok e')
    (s : Fin d.n) (j : Ind d) (hsup : zCProd p e.deltaTot e.alpha s j ≠ 0) :
    (sumFin d.m fun r => e'.orders (r, s) j) = needOf p e s j :=
  orders_sum_of_shares p e e' h s j (shares_alt p e halt s j hsup).2

/-- orders only go to initial suppliers -/
theorem orders_only_initial_suppliers (hs : ShareSpec p) (e' : Econ d) (h : orders p e = .ok e')
    (i j : Ind d) (hz : p.Z0 i j = 0) : e'.orders i j = 0 := by
  rw [orders_eq p e e' h]
  have : supplierShare p e.deltaTot e.alpha i j = 0 := by
    unfold supplierShare
    split_ifs
    · unfold altShare zProd
      rw [hz, zero_mul]
      exact safeDiv_zero_left _
    · rw [hs.zshare_eq, hz]
      exact safeDiv_zero_left _
  rw [this, mul_zero]

end
end Boario
