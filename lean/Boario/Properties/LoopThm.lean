/-
  `Simulation.loop()` is `loopN`: the only early exit is the crash flag (serves C05, C16, C19).

  `Boario.Gen.Loop` is regenerated from the source on every run: every write to `_monotony_checker` (the
  counter whose value > 3 would make `loop()` stop "at equilibrium") and the iteration range of `loop()`.
  The counter is only ever set to 0, so that exit is dead code and `loop()` performs `next_step()` once per
  step of the range, stopping only when a step returns 1 (crash) or raises — which is `loopN`; and `loopN`
  on a run without crash is exactly driving the simulation one step at a time (`runN`).
-/
import Boario.Gen.Loop
import Boario.Sim

namespace Boario.Gen

/-- the equilibrium counter is never incremented anywhere in the module -/
theorem monotony_never_incremented : monotonyWrites.all (fun w => w == "= 0") = true := by decide

/-- `loop()` iterates over `range(0, n_temporal_units_to_sim, n_temporal_units_by_step)` -/
theorem loop_range :
    loopRanges = [["0", "self.n_temporal_units_to_sim", "math.floor(self.model.n_temporal_units_by_step)"]] := by
  decide

end Boario.Gen

namespace Boario
variable {d : Dims}

/-- a loop that ends without crash is the same sequence of `next_step()` calls made by hand -/
theorem loop_eq_stepwise (k : Nat) : ∀ (s s' : Sim d), loopN k s = .done s' false ↔ runN k s = some s' := by
  induction k with
  | zero =>
    intro s s'
    simp only [loopN, runN, LoopResult.done.injEq, Option.some.injEq, and_true]
  | succ k ih =>
    intro s s'
    simp only [loopN, runN]
    cases h : nextStep s with
    | ok s1 => simpa using ih s1 s'
    | crashed s1 => simp
    | rejected => simp
    | internal => simp

/-- a loop that ends with the crash flag ran some steps by hand and then hit a crashing step; the state
    kept is the one the crashing step left -/
theorem loop_crash_stepwise (k : Nat) : ∀ (s s' : Sim d), loopN k s = .done s' true ↔
    ∃ j sj, j < k ∧ runN j s = some sj ∧ nextStep sj = .crashed s' := by
  induction k with
  | zero =>
    intro s s'
    simp [loopN]
  | succ k ih =>
    intro s s'
    simp only [loopN]
    cases h : nextStep s with
    | ok s1 =>
      simp only
      rw [ih s1 s']
      constructor
      · rintro ⟨j, sj, hj, hr, hc⟩
        exact ⟨j + 1, sj, by omega, by simp [runN, h, hr], hc⟩
      · rintro ⟨j, sj, hj, hr, hc⟩
        cases j with
        | zero =>
          simp only [runN, Option.some.injEq] at hr
          subst hr
          rw [h] at hc
          cases hc
        | succ j =>
          simp only [runN, h] at hr
          exact ⟨j, sj, by omega, hr, hc⟩
    | crashed s1 =>
      simp only [LoopResult.done.injEq, and_true]
      constructor
      · rintro rfl
        exact ⟨0, s, by omega, rfl, h⟩
      · rintro ⟨j, sj, hj, hr, hc⟩
        cases j with
        | zero =>
          simp only [runN, Option.some.injEq] at hr
          subst hr
          rw [h] at hc
          injection hc
        | succ j =>
          simp [runN, h] at hr
    | rejected =>
      simp only [reduceCtorEq, false_iff, not_exists, not_and]
      intro j sj hj hr hc
      cases j with
      | zero =>
        simp only [runN, Option.some.injEq] at hr
        subst hr
        rw [h] at hc
        cases hc
      | succ j => simp [runN, h] at hr
    | internal =>
      simp only [reduceCtorEq, false_iff, not_exists, not_and]
      intro j sj hj hr hc
      cases j with
      | zero =>
        simp only [runN, Option.some.injEq] at hr
        subst hr
        rw [h] at hc
        cases hc
      | succ j => simp [runN, h] at hr

end Boario
