/-
  C09 (run level) for every step length: `Properties/C09Run.lean` follows the ledger of a recovering event
  along a run with `dt = 1`.  With a step of `dt` temporal units the run visits the times 0, dt, 2·dt, …;
  recovery starts at the first visited time ≥ occurrence + duration, and at the step of time `t` the ledger is
  the recovery function at the elapsed time `t − (occurrence + duration)` (which need not be a multiple of dt
  nor start at 0), rounded.
-/
import Boario.Properties.C09Run
import Boario.Properties.C10Dt
import Boario.Lemmas.RecoveryDt

namespace Boario
variable {d : Dims}

/-- CAPITAL RECOVERY, every step length: after `k` steps (times 0, dt, …, (k−1)·dt done) of a run from t = 0 -/
theorem recovery_trajectory_dt (k : Nat) (s s' : Sim d) (hdt : 0 < s.dt) (ht : s.t = 0)
    (h : runN k s = some s') :
    List.Forall₂ (fun a b => FreshRecover a →
        -- no step at a time ≥ occ + dur has been taken: the initial damage, untouched
        ((k = 0 ∨ (k - 1) * s.dt < a.occ + a.dur) → b.dmg = some a.dmg0) ∧
        -- otherwise the last step, at time (k−1)·dt, was a recovery step
        (0 < k ∧ a.occ + a.dur ≤ (k - 1) * s.dt →
          (b.dmg = some (curveAt a ((k - 1) * s.dt)) ∧ ¬ allZeroI (curveAt a ((k - 1) * s.dt)) ∧ b.status = .recovering) ∨
          (b.dmg = none ∧ ∃ j, j < k ∧ a.occ + a.dur ≤ j * s.dt ∧ allZeroI (curveAt a (j * s.dt)))))
      s.trackers s'.trackers := by
  have hinit : List.Forall₂ (fun a x => FreshRecover a → rd_InvR s.dt 0 a x) s.trackers s.trackers :=
    List.forall₂_same.mpr fun a _ hP => rd_invR_init s.dt hdt a hP
  have hrun := rd_run_inv rd_InvR FreshRecover
    (fun dt k r a x hd hP hi => rd_invR_step dt k r a x hd hP.1 hi) rd_invR_nonrebuild
    s.trackers k 0 s s' hdt (by rw [ht, Nat.zero_mul]) h hinit
  rw [Nat.zero_add] at hrun
  refine hrun.imp ?_
  intro a b hab hP
  obtain ⟨-, -, -, i1, i2, i3⟩ := hab hP
  refine ⟨fun hk => ?_, fun hk => ?_⟩
  · rcases Nat.eq_zero_or_pos k with rfl | hpos
    · exact (i1 (by rw [Nat.zero_mul]; omega)).2
    · obtain ⟨m, rfl⟩ := Nat.exists_eq_add_of_lt hpos
      rw [Nat.zero_add] at i1 i2 hk
      rw [Nat.add_sub_cancel] at hk
      rw [Nat.add_one_mul] at i1 i2
      by_cases c : m * s.dt + s.dt < a.occ + s.dt
      · exact (i1 c).2
      · exact (i2 (by omega) (by omega)).2
  · obtain ⟨hpos, hk⟩ := hk
    obtain ⟨m, rfl⟩ := Nat.exists_eq_add_of_lt hpos
    rw [Nat.zero_add] at i3 hk ⊢
    rw [Nat.add_sub_cancel] at hk i3 ⊢
    rw [Nat.add_one_mul] at i3
    rcases i3 (by omega) with ⟨p1, p2, p3⟩ | ⟨p1, -, -, hj⟩
    · exact Or.inl ⟨p2, p3, p1⟩
    · exact Or.inr ⟨p1, hj⟩

/-- CAPACITY LOSS (arbitrary events), every step length -/
theorem arbitrary_trajectory_dt (k : Nat) (s s' : Sim d) (hdt : 0 < s.dt) (ht : s.t = 0)
    (h : runN k s = some s') :
    List.Forall₂ (fun a b => FreshArbitrary a →
        ((k = 0 ∨ (k - 1) * s.dt < a.occ + a.dur) → b.arb = some a.arb0) ∧
        (0 < k ∧ a.occ + a.dur ≤ (k - 1) * s.dt →
          (b.arb = some (arbCurveAt a ((k - 1) * s.dt)) ∧ ¬ allZeroI (arbCurveAt a ((k - 1) * s.dt)) ∧ b.status = .recovering) ∨
          (b.arb = none ∧ b.status = .finished ∧ ∃ j, j < k ∧ a.occ + a.dur ≤ j * s.dt ∧ allZeroI (arbCurveAt a (j * s.dt)))))
      s.trackers s'.trackers := by
  have hinit : List.Forall₂ (fun a x => FreshArbitrary a → rd_InvA s.dt 0 a x) s.trackers s.trackers :=
    List.forall₂_same.mpr fun a _ hP => rd_invA_init s.dt hdt a hP
  have hrun := rd_run_inv rd_InvA FreshArbitrary
    (fun dt k r a x hd hP hi => rd_invA_step dt k r a x hd hP.1 hi) rd_invA_nonrebuild
    s.trackers k 0 s s' hdt (by rw [ht, Nat.zero_mul]) h hinit
  rw [Nat.zero_add] at hrun
  refine hrun.imp ?_
  intro a b hab hP
  obtain ⟨-, -, -, i1, i2, i3⟩ := hab hP
  refine ⟨fun hk => ?_, fun hk => ?_⟩
  · rcases Nat.eq_zero_or_pos k with rfl | hpos
    · exact (i1 (by rw [Nat.zero_mul]; omega)).2
    · obtain ⟨m, rfl⟩ := Nat.exists_eq_add_of_lt hpos
      rw [Nat.zero_add] at i1 i2 hk
      rw [Nat.add_sub_cancel] at hk
      rw [Nat.add_one_mul] at i1 i2
      by_cases c : m * s.dt + s.dt < a.occ + s.dt
      · exact (i1 c).2
      · exact (i2 (by omega) (by omega)).2
  · obtain ⟨hpos, hk⟩ := hk
    obtain ⟨m, rfl⟩ := Nat.exists_eq_add_of_lt hpos
    rw [Nat.zero_add] at i3 hk ⊢
    rw [Nat.add_sub_cancel] at hk i3 ⊢
    rw [Nat.add_one_mul] at i3
    rcases i3 (by omega) with ⟨p1, p2, p3⟩ | ⟨p1, p2, hj⟩
    · exact Or.inl ⟨p2, p3, p1⟩
    · exact Or.inr ⟨p1, p2, hj⟩

/-- with the linear curve a capital-recovery event without household damage is finished once a step has been taken
    at a time ≥ occ + dur + tau (F17: also when the step jumps over tau), for every step length -/
theorem linear_finished_run_dt (s s' : Sim d) (hdt : 0 < s.dt) (ht : s.t = 0)
    (a : Tracker d) (ha : a ∈ s.trackers) (hf : FreshRecover a) (hh : a.hdmg = none) (htau : 0 < a.tau)
    (hcI : a.curveI = cellwiseI (gLinear a.tau))
    (k : Nat) (hk : 0 < k ∧ a.occ + a.dur + a.tau ≤ (k - 1) * s.dt) (h : runN k s = some s') :
    ∃ b ∈ s'.trackers, SameTracker a b ∧ b.status = .finished ∧ b.dmg = none := by
  have hinit : List.Forall₂ (fun a x => FreshRecover a → rd_InvR s.dt 0 a x) s.trackers s.trackers :=
    List.forall₂_same.mpr fun a _ hP => rd_invR_init s.dt hdt a hP
  have hrun := rd_run_inv rd_InvR FreshRecover
    (fun dt k r a x hd hP hi => rd_invR_step dt k r a x hd hP.1 hi) rd_invR_nonrebuild
    s.trackers k 0 s s' hdt (by rw [ht, Nat.zero_mul]) h hinit
  rw [Nat.zero_add] at hrun
  obtain ⟨b, hb, hab⟩ := rr_forall₂_mem_left hrun a ha
  obtain ⟨hsame, -, i0, -, -, i3⟩ := hab hf
  refine ⟨b, hb, hsame, ?_⟩
  obtain ⟨hpos, hk⟩ := hk
  obtain ⟨m, rfl⟩ := Nat.exists_eq_add_of_lt hpos
  rw [Nat.zero_add] at i3 hk
  rw [Nat.add_sub_cancel] at hk i3
  rw [Nat.add_one_mul] at i3
  rcases i3 (by omega) with ⟨-, -, p3⟩ | ⟨p1, -, p3, -⟩
  · exact absurd (rr_linear_allZero a htau hcI (m * s.dt) hk) p3
  · exact ⟨p3 (i0 hh), p1⟩

end Boario
