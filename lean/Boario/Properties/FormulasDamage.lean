/-
  How the damages of the trackers become a loss of production capacity: which trackers are aggregated and how (table
  regenerated from `Simulation.update_productive_capital_lost` / `update_prod_cap_delta_arb`), and the share of capacity
  lost to destroyed capital (cell formula of the `productive_capital_lost` setter) (C07, C09, C10, C11).
  See `Boario/Properties/Formulas.lean` for the approach.
-/
import Boario.Properties.FormulaTactics
import Boario.Gen.Aggregation

set_option linter.unusedTactic false
set_option linter.unreachableTactic false
set_option linter.unusedSimpArgs false
set_option linter.unnecessarySeqFocus false

namespace Boario.Gen
open Boario

variable {d : Dims}

/-- the name the source gives to a status -/
def statusName : Status → String
  | .pending => "pending" | .happening => "happening" | .rebuilding => "rebuilding"
  | .recovering => "recovering" | .finished => "finished"

def allStatuses : List Status := [.pending, .happening, .rebuilding, .recovering, .finished]

def aggregationOf (fn : String) : Option (List String × List String × List String) :=
  (aggregations.find? fun a => a.1 == fn).map fun a => a.2

/-- destroyed capital is summed (`np.add.reduce`) over the `_indus_dmg` of exactly the trackers that are happening,
    rebuilding or recovering — the model's `Tracker.active` — and nothing else is read. -/
theorem capital_aggregation_is_code :
    aggregationOf "update_productive_capital_lost"
      = some ((allStatuses.filter fun st => st == .happening || st == .rebuilding || st == .recovering).map statusName,
              ["_indus_dmg"], ["np.add.reduce"]) := by
  decide

/-- arbitrary capacity losses are combined by the element-wise maximum (`np.maximum.reduce`) over the
    `_prod_delta_from_arb` of exactly the trackers that are happening or recovering — the model's `arbContribution`. -/
theorem arbitrary_aggregation_is_code :
    aggregationOf "update_prod_cap_delta_arb"
      = some ((allStatuses.filter fun st => st == .happening || st == .recovering).map statusName,
              ["_prod_delta_from_arb"], ["np.maximum.reduce"]) := by
  decide

/-- the model's `Tracker.active` is the status test of the capital aggregation. -/
theorem active_iff_listed (tr : Tracker d) :
    tr.active = true ↔ statusName tr.status ∈ ["happening", "rebuilding", "recovering"] := by
  unfold Tracker.active
  cases tr.status <;> simp [statusName]

/-- the share of capacity lost to destroyed capital in the source is the model's `deltaCap`
    (destroyed / stock, 0 for an industry without capital). -/
theorem deltaCap_is_code (p : Params d) (lost : Ind d → Rat) (i : Ind d) :
    delta_capital_cell (lost i) (p.K i) = deltaCap p lost i := by
  simp only [delta_capital_cell, deltaCap, safeDiv] <;>
    formula_cases

end Boario.Gen
