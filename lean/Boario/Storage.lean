/-
  Boario.Storage — where simulations keep their records, and who owns which object.

  * A *world* maps storage keys (output directory of a simulation) to record files.  Constructing a
    simulation that saves records (re)creates the files under its key; running it writes rows there;
    reading a record of a simulation reads under its key.
  * A *heap* maps object ids to values; ingestion of a caller's object either copies it before any
    in-place operation (the discipline of the code) or not.
-/
import Boario.Basic

namespace Boario.Storage

abbrev Key := Nat
abbrev SimId := Nat

/-- a stored record file: the owner that created it last, and its rows -/
structure File where
  owner : SimId
  rows : List Nat
  deriving DecidableEq, Repr

/-- operations of a history of simulations in one process -/
inductive Op where
  | construct (sim : SimId) (key : Key) (saves : Bool)   -- Simulation(...): creates (truncates) its file if it saves records
  | write (sim : SimId) (key : Key) (row : Nat)          -- a step of `sim` appends a row to its record
  deriving DecidableEq, Repr

abbrev World := Key → Option File

def step (w : World) : Op → World
  | .construct sim key saves => if saves then (fun k => if k = key then some ⟨sim, []⟩ else w k) else w
  | .write _ key row => fun k => if k = key then (match w k with
      | some f => some { f with rows := f.rows ++ [row] }
      | none => none) else w k

def run (ops : List Op) : World := ops.foldl step (fun _ => none)

/-- what `sim` reads back from its own key -/
def readBack (w : World) (key : Key) : Option (List Nat) := (w key).map (·.rows)

/-- the rows `sim` itself wrote, in order (what an isolated run of `sim` alone would hold) -/
def ownRows (ops : List Op) (sim : SimId) : List Nat :=
  ops.filterMap fun op => match op with
    | .write s _ row => if s = sim then some row else none
    | _ => none

/-- keys are allocated per construction: simulation `i` gets key `base + i` (fresh temporary directory) -/
def freshKey (base : Nat) (sim : SimId) : Key := base + sim

/-! ### ownership of caller objects -/

abbrev ObjId := Nat
abbrev Heap := ObjId → Option (List Nat)

/-- an in-place operation on an object -/
def mutate (h : Heap) (o : ObjId) (f : List Nat → List Nat) : Heap :=
  fun k => if k = o then (h k).map f else h k

/-- copy `o` into a fresh id `fresh` -/
def copyTo (h : Heap) (o fresh : ObjId) : Heap :=
  fun k => if k = fresh then h o else h k

/-- ingestion with the copying discipline: copy first, then operate on the copy only -/
def ingestCopying (h : Heap) (caller fresh : ObjId) (ops : List (List Nat → List Nat)) : Heap :=
  ops.foldl (fun h' f => mutate h' fresh f) (copyTo h caller fresh)

end Boario.Storage
