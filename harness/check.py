"""./check <property id> <quick|thorough>  — decide one property on /repo's current working tree.

 1. rebuild the Lean model, the property's theorems and the driver; audit the theorems (present, no
    sorry, standard axioms only, no forbidden constructs);
 2. run the corpus triggers of the property, then the generated scenarios: correspondence
    obligations of the phases this property's theorems unfold + the property oracle on every trace;
 3. verdict (DESIGN.md §3.4): exit 0 / `VIOLATION property=… replay=…` exit 1 / exit 2 on
    infrastructure errors.  Evidence is rewritten on every run.
"""
from __future__ import annotations

import hashlib
import json
import os
import re
import subprocess
import sys
import time
import traceback
from pathlib import Path

VERIF = Path(__file__).resolve().parent.parent
# evidence and replays go here; only harness/seedtest.py (runs against mutated scratch trees) redirects it
OUT = Path(os.environ.get("VERIF_OUT", str(VERIF)))
LEAN = VERIF / "lean"
STD_AXIOMS = {"propext", "Classical.choice", "Quot.sound"}
FORBIDDEN = re.compile(r"\bsorry\b|\badmit\b|^\s*axiom\s|native_decide|bv_decide|implemented_by|\bunsafe\s|maxHeartbeats\s+0")


def sh(cmd, cwd=None, timeout=3600):
    return subprocess.run(cmd, shell=True, cwd=cwd, capture_output=True, text=True, timeout=timeout)


# ------------------------------------------------------------------ Lean side


def strip_comments(src: str) -> str:
    src = re.sub(r"/-.*?-/", "", src, flags=re.S)
    return re.sub(r"--.*", "", src)


def lean_sources():
    return sorted(list((LEAN / "Boario").rglob("*.lean")) + [LEAN / "Main.lean"])


def lean_build(modules):
    (LEAN / ".lake").mkdir(exist_ok=True)
    cmd = f"flock {LEAN}/.lake/verif.lock lake build driver {' '.join(modules)}"
    r = sh(cmd, cwd=LEAN)
    return r.returncode == 0, (r.stdout + r.stderr)[-6000:]


def lean_audit(pid, modules, theorems):
    """returns list of obligations: {name, ok, detail}"""
    res = []
    audit = LEAN / ".lake" / f"audit_{pid}.lean"
    lines = [f"import {m}" for m in modules] + [f"#print axioms Boario.{t}" for t in theorems]
    audit.write_text("\n".join(lines) + "\n")
    r = sh(f"lake env lean {audit}", cwd=LEAN)
    out = r.stdout + r.stderr
    for t in theorems:
        m = re.search(rf"'Boario\.{re.escape(t)}' (depends on axioms: \[([^\]]*)\]|does not depend on any axioms)", out, flags=re.S)
        if not m:
            res.append({"name": t, "ok": False, "detail": "theorem missing from the built environment"})
            continue
        axs = set(a.strip() for a in (m.group(2) or "").replace("\n", " ").split(",") if a.strip())
        bad = axs - STD_AXIOMS
        res.append({"name": t, "ok": not bad, "detail": "axioms: " + (", ".join(sorted(axs)) or "none")})
    return res


def import_closure(modules):
    """Lean files (inside the project) that the given modules import, transitively; plus the driver"""
    seen, todo = set(), list(modules) + ["Main"]
    while todo:
        mod = todo.pop()
        if mod in seen:
            continue
        f = LEAN / (mod.replace(".", "/") + ".lean")
        if not f.exists():
            continue
        seen.add(mod)
        for m in re.findall(r"^import\s+(Boario[\w.]*)", f.read_text(), flags=re.M):
            todo.append(m)
    return sorted(LEAN / (m.replace(".", "/") + ".lean") for m in seen)


def forbidden_hits(modules):
    hits = []
    for f in import_closure(modules):
        src = strip_comments(f.read_text())
        for n, line in enumerate(src.splitlines(), 1):
            if FORBIDDEN.search(line):
                hits.append(f"{f.relative_to(LEAN)}: {line.strip()[:100]}")
    return hits


# ------------------------------------------------------------------ scenario side


def summarize(sc):
    tb, cfg = sc["table"], sc["model"]
    return {"seed": sc["seed"], "stream": sc["stream"], "dims": [tb["m"], tb["n"], tb["k"]], "table": tb["kind"],
            "scale": tb["scale"], "class": cfg["class"], "order": cfg["order_type"], "psi": cfg.get("psi"),
            "inv": cfg["main_inv_dur"], "mf": cfg["monetary_factor"], "T": sc["T"],
            "events": [(e["type"], e["occ"], e["dur"], e.get("rebuild_tau") or e.get("recovery_tau")) for e in sc["events"]]}


def write_replay(pid, payload):
    d = OUT / "replays"
    d.mkdir(parents=True, exist_ok=True)
    blob = json.dumps(payload, sort_keys=True, default=str)
    h = hashlib.sha1(blob.encode()).hexdigest()[:12]
    path = d / f"{pid}-{h}.json"
    path.write_text(json.dumps(payload, indent=1, default=str))
    return path


def main(argv=None):
    argv = argv or sys.argv[1:]
    if len(argv) < 1:
        print("usage: check <id> [quick|thorough] | check <id> --replay <file>")
        return 2
    pid = argv[0]
    tier = "quick"
    replay = None
    if len(argv) >= 3 and argv[1] == "--replay":
        replay = argv[2]
    elif len(argv) >= 2:
        tier = argv[1]
    tier = os.environ.get("VERIF_TIER", tier) if len(argv) < 2 else tier
    seed = int(os.environ.get("VERIF_SEED", "0") or 0)
    t0 = time.time()
    sys.path.insert(0, str(VERIF))
    from harness import props
    if pid not in props.THEOREMS:
        print(f"property {pid} is not claimed by this framework (see MANIFEST.json not_applicable)")
        return 2
    try:
        return run_check(pid, tier, seed, t0, replay)
    except Exception:
        traceback.print_exc()
        print(f"INFRASTRUCTURE-ERROR property={pid}")
        return 2


def run_check(pid, tier, seed, t0, replay):
    from harness import props
    modules = props.MODULES[pid]
    theorems = props.THEOREMS[pid]
    problems = []          # (kind, detail) of broken proof / correspondence obligations
    violations = []        # concrete failing inputs
    known_hits = []
    # ---- 1. Lean
    gen_note = None
    if hasattr(props, "GEN") and pid in getattr(props, "GEN", {}):
        from harness import translate
        gen_note = translate.regenerate()
    ok, log = lean_build(modules)
    proof_obl = []
    leanchecker_note = None
    if not ok:
        # distinguish a broken driver (infrastructure) from a broken proof module
        ok_drv, log_drv = lean_build([])
        if not ok_drv:
            print(log_drv[-3000:])
            print(f"INFRASTRUCTURE-ERROR property={pid} (driver does not build)")
            return 2
        problems.append(("proof", "lake build of " + " ".join(modules) + " failed:\n" + log[-2500:]))
        proof_obl = [{"name": t, "ok": False, "detail": "module does not build"} for t in theorems]
    else:
        proof_obl = lean_audit(pid, modules, theorems)
        for o in proof_obl:
            if not o["ok"]:
                problems.append(("proof", f"theorem {o['name']}: {o['detail']}"))
        hits = forbidden_hits(modules)
        if hits:
            problems.append(("proof", "forbidden constructs in Lean sources: " + "; ".join(hits[:5])))
        if tier == "thorough":
            # independent re-check of the compiled property modules by leanchecker
            r = sh(f"lake env leanchecker {' '.join(modules)}", cwd=LEAN, timeout=1800)
            leanchecker_note = "leanchecker " + ("accepted " if r.returncode == 0 else "REJECTED ") + " ".join(modules)
            if r.returncode != 0:
                problems.append(("proof", leanchecker_note + ": " + (r.stdout + r.stderr)[-800:]))
    # ---- 2. implementation side
    from harness import runner
    res = runner.explore(pid, tier, seed, replay=replay)
    violations.extend(res["violations"])
    known_hits.extend(res["known"])
    for mm in res["mismatches"]:
        problems.append(("correspondence", mm))
    # ---- 3. verdict
    n_proof = len(proof_obl)
    n_proof_ok = sum(1 for o in proof_obl if o["ok"])
    obligations = n_proof + res["corr_obligations"]
    discharged = n_proof_ok + res["corr_ok"]
    status = 0
    out_lines = []
    for k in known_hits:
        out_lines.append(f"KNOWN-FINDING: property={pid} {k}")
    if violations:
        v = violations[0]
        path = write_replay(pid, {"property": pid, "kind": "failing-input", "violation": v.get("violation"),
                                  "scenario": v.get("scenario"), "case": v.get("case"), "trigger": v.get("trigger"),
                                  "all": [x.get("violation") for x in violations[:10]],
                                  "replay_cmd": f"./check {pid} --replay <this file>"})
        out_lines.append(f"VIOLATION property={pid} replay={path}")
        status = 1
    elif problems:
        kind, detail = problems[0]
        path = write_replay(pid, {"property": pid, "kind": "no-failing-input-found", "broken_obligation_kind": kind,
                                  "broken_obligation": detail, "others": [p[1] for p in problems[1:6]],
                                  "searched": {"scenarios": res["scenarios"], "steps": res["steps"], "tier": tier, "seed": seed}})
        out_lines.append(f"VIOLATION property={pid} replay={path} no-failing-input-found")
        status = 1
    wall = time.time() - t0
    evidence = {
        "property_id": pid, "tier": tier if tier in ("quick", "thorough") else "quick", "seed": seed, "level": "proof",
        "coverage": {
            "obligations": obligations, "discharged": discharged,
            "checker_cmd": f"cd lean && lake build driver {' '.join(modules)} && lake env lean .lake/audit_{pid}.lean  (#print axioms of every property theorem)",
            "trusted_base": [
                "Lean 4.33 kernel; axioms of every property theorem within {propext, Classical.choice, Quot.sound}",
                "hand-written model lean/Boario/*.lean and the reading of the property into the theorem statements",
                "correspondence harness (Python): per-phase comparison at relative 1e-9 from the implementation's own pre-states; generator coverage bounds what it sees",
                "not verified: IEEE-754 rounding, NumPy/pandas primitives, absence of overflow",
            ],
            "theorems": proof_obl,
            "correspondence_obligations": res["corr_obligations"], "correspondence_ok": res["corr_ok"],
            "evaluations": res["steps"], "distinct_nontrivial": res["nontrivial"],
            "rule": res["rule"], "samples": res["samples"], "scenarios": res["scenarios"],
            "input_distribution": res["distribution"], "branches": res["branches"], "ties_accepted": res["ties"],
            "corpus": res["corpus"], "known_findings_hit": known_hits, "gen": gen_note, "leanchecker": leanchecker_note,
            "paired_runs": res.get("paired_runs", 0), "exhaustive_subspaces": res.get("exhaustive_subspaces", []),
            "exhaustive": False,
        },
        "assumptions": ["float rounding error of the implementation stays below relative 1e-9 per phase",
                        "magnitudes stay inside the float range"],
        "wall_s": round(wall, 2), "violations": len(violations) + (1 if (problems and not violations) else 0),
    }
    (OUT / "evidence").mkdir(parents=True, exist_ok=True)
    (OUT / "evidence" / f"{pid}.json").write_text(json.dumps(evidence, indent=1, default=str))
    for ln in out_lines:
        print(ln)
    print(f"{pid} {tier}: theorems {n_proof_ok}/{n_proof}, correspondence {res['corr_ok']}/{res['corr_obligations']}, "
          f"scenarios {res['scenarios']}, steps {res['steps']}, nontrivial {res['nontrivial']}, "
          f"oracle violations {len(violations)}, known {len(known_hits)}, {wall:.1f}s -> exit {status}")
    return status


if __name__ == "__main__":
    sys.exit(main())
