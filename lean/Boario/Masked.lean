/-
  Masked NumPy ufuncs and uninitialised allocations (serves C17 and C20).

  `np.divide(a, b, where=mask, out=arr)` computes a cell only where the mask holds; elsewhere the cell keeps what `arr`
  held.  Without `out=` NumPy allocates the result itself and does not initialise it, and `np.empty` / `np.ndarray` never
  do: such a cell holds whatever the allocator's block held before — records of a simulation that was just dropped, for
  instance — which is a parameter (`mem`) here, because no input of the simulation determines it.
-/
import Boario.GenTypes

namespace Boario.Masked
open Boario.Gen

/-- one cell of the result of a masked ufunc: `prior` is what the `out=` array held, `mem` what the memory block held -/
def cell (init : OutInit) (prior mem computed : Rat) (mask : Bool) : Rat :=
  if mask then computed else
    match init with
    | .filled | .computed => prior
    | .raw | .missing | .unknown => mem

/-- the result is a function of the operands, the mask and the `out=` array alone -/
def Deterministic (init : OutInit) : Prop :=
  ∀ (prior computed : Rat) (mask : Bool) (mem mem' : Rat), cell init prior mem computed mask = cell init prior mem' computed mask

/-- one cell of an array right after allocation by `np.empty` / `np.ndarray`, and after the statement that uses it first -/
def allocCell (filledNext : Bool) (fillv mem : Rat) : Rat := if filledNext then fillv else mem

end Boario.Masked
