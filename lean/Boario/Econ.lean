/-
  Boario.Econ — the economic core of one ARIO step, shaped like the code
  (`boario/model_base.py`, `boario/extended_models.py`), in exact rationals.

  Python                                   | here
  -----------------------------------------+------------------------------------------
  ARIOBaseModel.production_cap             | `capacity`, `capNegative`
  ARIOBaseModel.production_opt             | `xOpt`
  calc_inventory_constraints (base / psi)  | `cons`
  calc_production                          | `stockConstraint`, `ratio`, `production`
  distribute_production                    | `rowTot`, `share`, `deliver*`, `stockUse`, `stockAdd`,
                                           |   `distribute`
  calc_matrix_stock_gap, calc_orders       | `goal`, `ordersClose`, `gap`, `need`, `altShare`, `orders`
  calc_overproduction                      | `scarcity`, `alphaChg`, `overprod`

  Industries are pairs (region, sector); the flat index of the code is `r * n + s`.
  `tech_mat = I_sum @ A` is `a s f` (input `s`, industry `f`).  The rebuilding part of the demand
  matrix is a list of blocks, one per rebuilding event in id order (abstract layer; the flat column
  arithmetic is `Boario.Layout`).
-/
import Boario.Basic

namespace Boario

structure Dims where
  m : Nat   -- regions
  n : Nat   -- sectors
  k : Nat   -- final demand categories

abbrev Ind (d : Dims) := Fin d.m × Fin d.n
abbrev Fd (d : Dims) := Fin d.m × Fin d.k

def sumInd (d : Dims) (f : Ind d → Rat) : Rat :=
  sumFin d.m fun r => sumFin d.n fun s => f (r, s)

def sumFd (d : Dims) (f : Fd d → Rat) : Rat :=
  sumFin d.m fun r => sumFin d.k fun c => f (r, c)

/-- Everything `ARIOBaseModel.__init__` / `ARIOPsiModel.__init__` derive from the table and keep constant. -/
structure Params (d : Dims) where
  x0 : Ind d → Rat
  Z0 : Ind d → Ind d → Rat               -- supplier → client, per step
  Y0 : Ind d → Fd d → Rat
  a : Fin d.n → Ind d → Rat              -- tech_mat
  thr : Fin d.n → Ind d → Bool           -- threshold_not_input
  invDur : Fin d.n → Option Rat          -- inv_duration, `none` = infinite
  psi : Rat                              -- 1 in the base class
  rest : Fin d.n → Rat                   -- restoration_tau (dt / tau), 1 in the base class
  aBase : Rat
  aMax : Rat
  aTau : Rat                             -- overprod_tau = dt / alpha_tau
  alt : Bool                             -- order_type == "alt"
  Zshare : Ind d → Ind d → Rat           -- Z_distrib
  K : Ind d → Rat                        -- productive_capital

/-- One rebuilding block of the demand matrix: industrial part and household part. -/
structure RebBlock (d : Dims) where
  indus : Ind d → Ind d → Rat            -- supplier → damaged industry
  house : Ind d → Fd d → Rat             -- supplier → (region, category)

/-- The mutable economic state, including the cache `_entire_demand_tot`. -/
structure Econ (d : Dims) where
  orders : Ind d → Ind d → Rat           -- intermediate_demand (supplier row, client column)
  fd : Ind d → Fd d → Rat                -- final_demand
  reb : List (RebBlock d)                -- rebuild_demand, by rebuild id
  dTot : Ind d → Rat                     -- _entire_demand_tot (cache)
  stock : Fin d.n → Ind d → Rat          -- inputs_stock (rows of infinite inputs are not tracked)
  prod : Ind d → Rat                     -- production
  alpha : Ind d → Rat                    -- overprod
  deltaTot : Ind d → Rat                 -- _prod_cap_delta_tot
  fdUnmet : Ind d → Rat                  -- final_demand_not_met
  rebProd : List (RebBlock d)            -- rebuild_prod (delivered), by rebuild id

variable {d : Dims}

def zeroBlock : RebBlock d := { indus := fun _ _ => 0, house := fun _ _ => 0 }

/-! ### capacity, optimal production -/

def capacity (p : Params d) (deltaTot alpha : Ind d → Rat) (f : Ind d) : Rat :=
  p.x0 f * (1 - deltaTot f) * alpha f

/-- `(production_cap < 0).any()` -/
def capNegative (p : Params d) (deltaTot alpha : Ind d → Rat) : Prop :=
  ∃ r s, capacity p deltaTot alpha (r, s) < 0

instance (p : Params d) (dl al : Ind d → Rat) : Decidable (capNegative p dl al) := by
  unfold capNegative; infer_instance

/-- `np.fmin(entire_demand_tot, production_cap)` -/
def xOpt (p : Params d) (dTot deltaTot alpha : Ind d → Rat) (f : Ind d) : Rat :=
  min (dTot f) (capacity p deltaTot alpha f)

/-- duration with `nan_to_num(inv_duration, posinf=0)` -/
def durOrZero (p : Params d) (s : Fin d.n) : Rat :=
  match p.invDur s with
  | some v => v
  | none => 0

/-- `calc_inventory_constraints(production)` (psi = 1 reproduces the base class) -/
def cons (p : Params d) (x : Ind d → Rat) (s : Fin d.n) (f : Ind d) : Rat :=
  x f * p.a s f * p.psi * durOrZero p s

/-! ### production -/

/-- one cell of `stock_constraint = (inputs_stock < inventory_constraints) * threshold_not_input` -/
def stockConstraint (p : Params d) (stock : Fin d.n → Ind d → Rat) (x : Ind d → Rat)
    (s : Fin d.n) (f : Ind d) : Bool :=
  p.thr s f && (p.invDur s).isSome && decide (stock s f < cons p x s f)

def anyConstraint (p : Params d) (stock : Fin d.n → Ind d → Rat) (x : Ind d → Rat) : Prop :=
  ∃ s r t, stockConstraint p stock x s (r, t) = true

instance (p : Params d) (st : Fin d.n → Ind d → Rat) (x : Ind d → Rat) :
    Decidable (anyConstraint p st x) := by unfold anyConstraint; infer_instance

/-- `production_ratio_stock`, already capped at 1 -/
def ratio (p : Params d) (stock : Fin d.n → Ind d → Rat) (x : Ind d → Rat)
    (s : Fin d.n) (f : Ind d) : Rat :=
  if p.thr s f = true ∧ cons p x s f ≠ 0 then min 1 (stock s f / cons p x s f) else 1

/-- `np.min(production_max, axis=0)`; with `n = 0` inputs nothing constrains. -/
def prodShortage (p : Params d) (stock : Fin d.n → Ind d → Rat) (x : Ind d → Rat) (f : Ind d) : Rat :=
  minFin d.n (x f) fun s => x f * ratio p stock x s f

/-- `calc_production`: the new `production` vector. -/
def production (p : Params d) (stock : Fin d.n → Ind d → Rat) (x : Ind d → Rat) (f : Ind d) : Rat :=
  if anyConstraint p stock x then prodShortage p stock x f else x f

/-! ### distribution (proportional rationing) -/

def blockTot (b : RebBlock d) (i : Ind d) : Rat :=
  sumInd d (b.indus i) + sumFd d (b.house i)

def rebTot (reb : List (RebBlock d)) (i : Ind d) : Rat :=
  sumList (reb.map fun b => blockTot b i)

/-- fresh row sum of the whole demand matrix: `np.sum(entire_demand, axis=1)` -/
def rowTot (orders : Ind d → Ind d → Rat) (fd : Ind d → Fd d → Rat) (reb : List (RebBlock d))
    (i : Ind d) : Rat :=
  sumInd d (orders i) + sumFd d (fd i) + rebTot reb i

/-- one cell of `distributed_production`: `demand / tot * production`, `0` when `tot = 0` -/
def deliverCell (tot prod cell : Rat) : Rat := safeDiv cell tot 0 * prod

def deliverBlock (tot prod : Ind d → Rat) (b : RebBlock d) : RebBlock d where
  indus := fun i j => deliverCell (tot i) (prod i) (b.indus i j)
  house := fun i c => deliverCell (tot i) (prod i) (b.house i c)

def subBlock (b c : RebBlock d) : RebBlock d where
  indus := fun i j => b.indus i j - c.indus i j
  house := fun i cc => b.house i cc - c.house i cc

/-- `stock_use = tile(production) * tech_mat` -/
def stockUse (p : Params d) (prod : Ind d → Rat) (s : Fin d.n) (f : Ind d) : Rat :=
  prod f * p.a s f

/-- `stock_add = I_sum @ intmd_distribution` -/
def stockAdd (delivOrders : Ind d → Ind d → Rat) (s : Fin d.n) (f : Ind d) : Rat :=
  sumFin d.m fun r => delivOrders (r, s) f

/-- `np.allclose(stock_add, stock_use)` over every cell (all entries finite) -/
def addUseClose (p : Params d) (prod : Ind d → Rat) (delivOrders : Ind d → Ind d → Rat) : Prop :=
  ∀ s r t, isClose (stockAdd delivOrders s (r, t)) (stockUse p prod s (r, t))

instance (p : Params d) (pr : Ind d → Rat) (dl : Ind d → Ind d → Rat) :
    Decidable (addUseClose p pr dl) := by unfold addUseClose; infer_instance

def stockUpdated (p : Params d) (e : Econ d) (delivOrders : Ind d → Ind d → Rat)
    (s : Fin d.n) (f : Ind d) : Rat :=
  e.stock s f - stockUse p e.prod s f + stockAdd delivOrders s f

/-- `(inputs_stock < 0).any()` restricted to tracked (finite) rows; infinite rows are `+inf` in the code -/
def stockNegative (p : Params d) (stock : Fin d.n → Ind d → Rat) : Prop :=
  ∃ s r t, (p.invDur s).isSome = true ∧ stock s (r, t) < 0

instance (p : Params d) (st : Fin d.n → Ind d → Rat) : Decidable (stockNegative p st) := by
  unfold stockNegative; infer_instance

/-- Everything `distribute_production` computes for one step. -/
structure Delivered (d : Dims) where
  orders : Ind d → Ind d → Rat
  fd : Ind d → Fd d → Rat
  reb : List (RebBlock d)

def deliveries (e : Econ d) : Delivered d :=
  let tot := rowTot e.orders e.fd e.reb
  { orders := fun i j => deliverCell (tot i) (e.prod i) (e.orders i j)
    fd := fun i c => deliverCell (tot i) (e.prod i) (e.fd i c)
    reb := e.reb.map (deliverBlock tot e.prod) }

def fdUnmetOf (e : Econ d) (dl : Delivered d) (i : Ind d) : Rat :=
  sumFd d fun c => e.fd i c - dl.fd i c

/-- subtract delivered blocks pairwise (`rebuild_demand - rebuild_prod`) -/
def subBlocks : List (RebBlock d) → List (RebBlock d) → List (RebBlock d)
  | b :: bs, c :: cs => subBlock b c :: subBlocks bs cs
  | bs, [] => bs
  | [], _ => []

inductive Outcome (α : Type) where
  | ok (s : α)
  | crashed (s : α)         -- RuntimeError inside the distribution `try`: `next_step` returns 1
  | rejected                -- ValueError (negative capacity, lost capital above stock)
  | internal                -- any other exception: must never happen for admitted inputs

/-- the state after the stock update was *skipped* (`allclose(stock_add, stock_use)`) -/
def distributeFinish (e : Econ d) (dl : Delivered d) (stock' : Fin d.n → Ind d → Rat) : Econ d :=
  let reb' := subBlocks e.reb dl.reb
  { e with
    stock := stock'
    fdUnmet := fdUnmetOf e dl
    rebProd := dl.reb
    reb := reb'
    dTot := if e.reb.isEmpty then e.dTot else rowTot e.orders e.fd reb' }

def distributeSkip (e : Econ d) : Outcome (Econ d) :=
  .ok (distributeFinish e (deliveries e) e.stock)

def distributeUpdate (p : Params d) (e : Econ d) : Outcome (Econ d) :=
  let dl := deliveries e
  let stock' := stockUpdated p e dl.orders
  if stockNegative p stock' then .crashed { e with stock := stock' }
  else .ok (distributeFinish e dl stock')

/-- `distribute_production` -/
def distribute (p : Params d) (e : Econ d) : Outcome (Econ d) :=
  if addUseClose p e.prod (deliveries e).orders then distributeSkip e else distributeUpdate p e

/-! ### orders -/

/-- `matrix_stock_goal` on tracked rows -/
def goal (p : Params d) (x : Ind d → Rat) (s : Fin d.n) (f : Ind d) : Rat :=
  x f * p.a s f * durOrZero p s

/-- `np.allclose(inputs_stock[finite], matrix_stock_goal[finite])`: every tracked (finite-duration)
    inventory is cell-wise close to its goal; inputs with infinite inventories take no part. -/
def ordersClose (p : Params d) (stock : Fin d.n → Ind d → Rat) (x : Ind d → Rat) : Prop :=
  ∀ s r t, match p.invDur s with
    | some _ => isClose (stock s (r, t)) (goal p x s (r, t))
    | none => True

instance (p : Params d) (st : Fin d.n → Ind d → Rat) (x : Ind d → Rat) :
    Decidable (ordersClose p st x) := by
  unfold ordersClose
  have : ∀ s r t, Decidable (match p.invDur s with
    | some _ => isClose (st s (r, t)) (goal p x s (r, t))
    | none => True) := by
    intro s r t; split <;> infer_instance
  infer_instance

/-- `calc_matrix_stock_gap` (times the restoration rate of the input in the psi class) -/
def gapOpen (p : Params d) (stock : Fin d.n → Ind d → Rat) (x : Ind d → Rat)
    (s : Fin d.n) (f : Ind d) : Rat :=
  match p.invDur s with
  | some _ => p.rest s * pos (goal p x s f - stock s f)
  | none => 0

/-- inputs used this step plus the gap -/
def needWith (p : Params d) (gap : Fin d.n → Ind d → Rat) (prod : Ind d → Rat)
    (s : Fin d.n) (f : Ind d) : Rat :=
  gap s f + prod f * p.a s f

/-- `prod_ratio`: current capacity relative to initial output, `1` where `x0 = 0` -/
def rho (p : Params d) (deltaTot alpha : Ind d → Rat) (i : Ind d) : Rat :=
  safeDiv (capacity p deltaTot alpha i) (p.x0 i) 1

def zProd (p : Params d) (deltaTot alpha : Ind d → Rat) (i j : Ind d) : Rat :=
  p.Z0 i j * rho p deltaTot alpha i

def zCProd (p : Params d) (deltaTot alpha : Ind d → Rat) (s : Fin d.n) (j : Ind d) : Rat :=
  sumFin d.m fun r => zProd p deltaTot alpha (r, s) j

/-- capacity-weighted supplier share (`alt`) -/
def altShare (p : Params d) (deltaTot alpha : Ind d → Rat) (i j : Ind d) : Rat :=
  safeDiv (zProd p deltaTot alpha i j) (zCProd p deltaTot alpha i.2 j) 0

def supplierShare (p : Params d) (deltaTot alpha : Ind d → Rat) (i j : Ind d) : Rat :=
  if p.alt then altShare p deltaTot alpha i j else p.Zshare i j

def ordersFrom (p : Params d) (e : Econ d) (gap : Fin d.n → Ind d → Rat) (i j : Ind d) : Rat :=
  needWith p gap e.prod i.2 j * supplierShare p e.deltaTot e.alpha i j

def ordersNegative (o : Ind d → Ind d → Rat) : Prop :=
  ∃ r s r' s', o (r, s) (r', s') < 0

instance (o : Ind d → Ind d → Rat) : Decidable (ordersNegative o) := by
  unfold ordersNegative; infer_instance

def ordersFinish (p : Params d) (e : Econ d) (gap : Fin d.n → Ind d → Rat) : Outcome (Econ d) :=
  let o := ordersFrom p e gap
  if ordersNegative o then .internal
  else .ok { e with orders := o, dTot := rowTot o e.fd e.reb }

def ordersClosed (p : Params d) (e : Econ d) : Outcome (Econ d) :=
  ordersFinish p e (fun _ _ => 0)

def ordersOpen (p : Params d) (e : Econ d) : Outcome (Econ d) :=
  ordersFinish p e (gapOpen p e.stock (xOpt p e.dTot e.deltaTot e.alpha))

/-- `calc_orders` -/
def orders (p : Params d) (e : Econ d) : Outcome (Econ d) :=
  if capNegative p e.deltaTot e.alpha then .rejected
  else if ordersClose p e.stock (xOpt p e.dTot e.deltaTot e.alpha) then ordersClosed p e
  else ordersOpen p e

/-! ### overproduction -/

def scarcity (dTot prod : Ind d → Rat) (f : Ind d) : Rat :=
  if dTot f ≠ 0 then (dTot f - prod f) / dTot f else 0

def alphaChg (p : Params d) (alpha dTot prod : Ind d → Rat) (f : Ind d) : Rat :=
  (if 0 < scarcity dTot prod f then (p.aMax - alpha f) * scarcity dTot prod f * p.aTau else 0)
    + (if scarcity dTot prod f ≤ 0 then (p.aBase - alpha f) * p.aTau else 0)

/-- `calc_overproduction` -/
def overprod (p : Params d) (alpha dTot prod : Ind d → Rat) (f : Ind d) : Rat :=
  max 1 (alpha f + alphaChg p alpha dTot prod f)

/-! ### the production phase as a state transformer -/

def productionPhase (p : Params d) (e : Econ d) : Outcome (Econ d) :=
  if capNegative p e.deltaTot e.alpha then .rejected
  else .ok { e with prod := production p e.stock (xOpt p e.dTot e.deltaTot e.alpha) }

def overprodPhase (p : Params d) (e : Econ d) : Econ d :=
  { e with alpha := overprod p e.alpha e.dTot e.prod }

end Boario
