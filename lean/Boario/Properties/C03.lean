/-
  C03 — Realised production is feasible and as large as feasibility allows.
  Property theorems only (helper lemmas live in Boario/Lemmas).
-/
import Boario.Lemmas.Production

namespace Boario
variable {d : Dims}

/-- What `calc_production` may assume about its inputs (all established by the other phases). -/
structure ProdHyp (p : Params d) (stock : Fin d.n → Ind d → Rat) (dTot deltaTot alpha : Ind d → Rat) : Prop where
  stock_nonneg : ∀ s f, (p.invDur s).isSome = true → 0 ≤ stock s f
  dTot_nonneg : ∀ f, 0 ≤ dTot f
  cap_nonneg : ∀ f, 0 ≤ capacity p deltaTot alpha f
  a_nonneg : ∀ s f, 0 ≤ p.a s f
  psi_nonneg : 0 ≤ p.psi
  dur_pos : ∀ s v, p.invDur s = some v → 0 < v

/-- the hypotheses make the optimal level `xOpt` an admissible target for the helper lemmas -/
theorem ProdHyp.pre {p : Params d} {stock : Fin d.n → Ind d → Rat} {dTot deltaTot alpha : Ind d → Rat}
    (h : ProdHyp p stock dTot deltaTot alpha) : ProdPre p stock (xOpt p dTot deltaTot alpha) where
  stock_nonneg := h.stock_nonneg
  x_nonneg := fun f => le_min (h.dTot_nonneg f) (h.cap_nonneg f)
  a_nonneg := h.a_nonneg
  psi_nonneg := h.psi_nonneg
  dur_pos := h.dur_pos

section
variable (p : Params d) (stock : Fin d.n → Ind d → Rat) (dTot deltaTot alpha : Ind d → Rat)

/-- the code's two branches (shortage / no shortage) are one closed form -/
theorem production_branches_agree (h : ProdHyp p stock dTot deltaTot alpha) (f : Ind d) :
    production p stock (xOpt p dTot deltaTot alpha) f
      = prodShortage p stock (xOpt p dTot deltaTot alpha) f := by
  exact production_eq_prodShortage h.pre f

theorem production_nonneg (h : ProdHyp p stock dTot deltaTot alpha) (f : Ind d) :
    0 ≤ production p stock (xOpt p dTot deltaTot alpha) f := by
  rw [production_eq_prodShortage h.pre]
  exact prodShortage_nonneg h.pre f

theorem production_le_demand (h : ProdHyp p stock dTot deltaTot alpha) (f : Ind d) :
    production p stock (xOpt p dTot deltaTot alpha) f ≤ dTot f := by
  rw [production_eq_prodShortage h.pre]
  exact le_trans (prodShortage_le f) (min_le_left _ _)

theorem production_le_capacity (h : ProdHyp p stock dTot deltaTot alpha) (f : Ind d) :
    production p stock (xOpt p dTot deltaTot alpha) f ≤ capacity p deltaTot alpha f := by
  rw [production_eq_prodShortage h.pre]
  exact le_trans (prodShortage_le f) (min_le_right _ _)

/-- for every real (above the technology threshold), finite input with a non-zero constraint:
    the inventory covers `psi · s` steps of use at the realised production level -/
theorem production_le_stock_support (h : ProdHyp p stock dTot deltaTot alpha) (f : Ind d)
    (s : Fin d.n) (v : Rat) (hthr : p.thr s f = true) (hv : p.invDur s = some v)
    (hc : cons p (xOpt p dTot deltaTot alpha) s f ≠ 0) :
    production p stock (xOpt p dTot deltaTot alpha) f * p.a s f * p.psi * v ≤ stock s f := by
  rw [production_eq_prodShortage h.pre]
  exact prodShortage_stock_support h.pre f s v hthr hv hc

/-- realised production is exactly the smallest of the three bounds -/
theorem production_eq_min3 (h : ProdHyp p stock dTot deltaTot alpha) (f : Ind d) :
    production p stock (xOpt p dTot deltaTot alpha) f
      = min (dTot f) (min (capacity p deltaTot alpha f)
          (prodShortage p stock (xOpt p dTot deltaTot alpha) f)) := by
  rw [production_eq_prodShortage h.pre]
  have hle : prodShortage p stock (xOpt p dTot deltaTot alpha) f
      ≤ min (dTot f) (capacity p deltaTot alpha f) := prodShortage_le f
  rw [min_eq_right (le_trans hle (min_le_right _ _)), min_eq_right (le_trans hle (min_le_left _ _))]

/-- the inventory bound is tight: it is the optimal level, or the optimal level times the fill
    ratio `stock / constraint` of some real input (so an industry never produces less than it could) -/
theorem production_tight (h : ProdHyp p stock dTot deltaTot alpha) (f : Ind d) :
    production p stock (xOpt p dTot deltaTot alpha) f = xOpt p dTot deltaTot alpha f ∨
    ∃ s, p.thr s f = true ∧ cons p (xOpt p dTot deltaTot alpha) s f ≠ 0 ∧
      production p stock (xOpt p dTot deltaTot alpha) f
        = xOpt p dTot deltaTot alpha f * (stock s f / cons p (xOpt p dTot deltaTot alpha) s f) := by
  rw [production_eq_prodShortage h.pre]
  exact prodShortage_tight f

end
end Boario
