/-
  Helper lemmas for C01: every phase of `nextStep` maps the initial equilibrium to itself.
  `EqParams` collects what the phases need about the constant parameters, `EqEcon` is the
  equilibrium of the economic state (pointwise; untracked stock rows and `rebProd` are free).
-/
import Boario.Lemmas.Sums
import Boario.Lemmas.Deliver
import Boario.Lemmas.Alpha
import Boario.Init

set_option linter.unusedSectionVars false

namespace Boario
variable {d : Dims}

/-! ### sums of non-negative terms -/

theorem sumFin_eq_zero_of_nonneg (n : Nat) (f : Fin n → Rat) (h : ∀ i, 0 ≤ f i)
    (h0 : sumFin n f = 0) (i : Fin n) : f i = 0 := by
  rw [sumFin_eq_sum] at h0
  exact (Finset.sum_eq_zero_iff_of_nonneg (fun i _ => h i)).1 h0 i (Finset.mem_univ i)

theorem sumInd_eq_zero_of_nonneg (f : Ind d → Rat) (h : ∀ i, 0 ≤ f i)
    (h0 : sumInd d f = 0) (i : Ind d) : f i = 0 := by
  rw [sumInd_eq_sum_prod] at h0
  exact (Finset.sum_eq_zero_iff_of_nonneg (fun i _ => h i)).1 h0 i (Finset.mem_univ i)

theorem sumFd_eq_zero_of_nonneg (f : Fd d → Rat) (h : ∀ i, 0 ≤ f i)
    (h0 : sumFd d f = 0) (i : Fd d) : f i = 0 := by
  rw [sumFd_eq_sum_prod] at h0
  exact (Finset.sum_eq_zero_iff_of_nonneg (fun i _ => h i)).1 h0 i (Finset.mem_univ i)

theorem sumInd_nonneg (f : Ind d → Rat) (h : ∀ i, 0 ≤ f i) : 0 ≤ sumInd d f := by
  rw [sumInd_eq_sum_prod]
  exact Finset.sum_nonneg fun i _ => h i

theorem sumFin_nonneg' (n : Nat) (f : Fin n → Rat) (h : ∀ i, 0 ≤ f i) : 0 ≤ sumFin n f := by
  rw [sumFin_eq_sum]
  exact Finset.sum_nonneg fun i _ => h i

/-- a column sum is at most the sum over all industries of the column -/
theorem sumFin_col_le_sumInd (f : Ind d → Rat) (h : ∀ i, 0 ≤ f i) (s : Fin d.n) :
    (sumFin d.m fun r => f (r, s)) ≤ sumInd d f := by
  rw [sumInd_eq_sum, sumFin_eq_sum]
  apply Finset.sum_le_sum
  intro r _
  exact Finset.single_le_sum (f := fun s => f (r, s)) (fun s _ => h (r, s)) (Finset.mem_univ s)

theorem isClose_self (a : Rat) : isClose a a := by
  unfold isClose rabs atol rtol
  rw [sub_self]
  split_ifs <;> nlinarith

theorem pos_zero : pos 0 = 0 := by
  unfold pos; simp

/-! ### the parameters -/

/-- what the phases need to know about the constant parameters -/
structure EqParams (p : Params d) : Prop where
  z_nonneg : ∀ i j, 0 ≤ p.Z0 i j
  y_nonneg : ∀ i c, 0 ≤ p.Y0 i c
  balanced : ∀ i, p.x0 i = sumInd d (p.Z0 i) + sumFd d (p.Y0 i)
  a_nonneg : ∀ s f, 0 ≤ p.a s f
  use_eq : ∀ s f, p.x0 f * p.a s f = sumFin d.m fun r => p.Z0 (r, s) f
  share_eq : ∀ i j, (sumFin d.m fun r => p.Z0 (r, i.2) j) * p.Zshare i j = p.Z0 i j
  dur_nonneg : ∀ s, 0 ≤ durOrZero p s
  base_ge_one : 1 ≤ p.aBase
  psi_le_one : p.psi ≤ 1

section
variable {p : Params d} (hp : EqParams p)
include hp

theorem EqParams.x0_nonneg (f : Ind d) : 0 ≤ p.x0 f := by
  rw [hp.balanced]
  exact add_nonneg (sumInd_nonneg _ (hp.z_nonneg f)) (sumFd_nonneg _ (hp.y_nonneg f))

/-- an industry without output sells nothing -/
theorem EqParams.row_zero {i : Ind d} (h0 : p.x0 i = 0) :
    (∀ j, p.Z0 i j = 0) ∧ (∀ c, p.Y0 i c = 0) := by
  have hb := hp.balanced i
  rw [h0] at hb
  have h1 := sumInd_nonneg _ (hp.z_nonneg i)
  have h2 := sumFd_nonneg _ (hp.y_nonneg i)
  exact ⟨sumInd_eq_zero_of_nonneg _ (hp.z_nonneg i) (by linarith),
    sumFd_eq_zero_of_nonneg _ (hp.y_nonneg i) (by linarith)⟩

theorem EqParams.capacity_eq (f : Ind d) :
    capacity p (fun _ => 0) (fun _ => p.aBase) f = p.x0 f * p.aBase := by
  unfold capacity; ring

theorem EqParams.xOpt_eq (f : Ind d) :
    xOpt p p.x0 (fun _ => 0) (fun _ => p.aBase) f = p.x0 f := by
  unfold xOpt
  rw [hp.capacity_eq]
  apply min_eq_left
  have := mul_le_mul_of_nonneg_left hp.base_ge_one (hp.x0_nonneg f)
  linarith

theorem EqParams.not_capNegative : ¬ capNegative p (fun _ => 0) (fun _ => p.aBase) := by
  rintro ⟨r, s, h⟩
  rw [hp.capacity_eq] at h
  have := mul_nonneg (hp.x0_nonneg (r, s)) (le_trans zero_le_one hp.base_ge_one)
  linarith

theorem EqParams.rho_mul (i j : Ind d) :
    zProd p (fun _ => 0) (fun _ => p.aBase) i j = p.Z0 i j * p.aBase := by
  unfold zProd rho safeDiv
  rw [hp.capacity_eq]
  split_ifs with h0
  · rw [(hp.row_zero h0).1 j]; ring
  · rw [mul_comm (p.x0 i), mul_div_assoc, div_self h0, mul_one]

/-- the capacity-weighted share reproduces the initial flow as well -/
theorem EqParams.altShare_eq (i j : Ind d) :
    (sumFin d.m fun r => p.Z0 (r, i.2) j) * altShare p (fun _ => 0) (fun _ => p.aBase) i j
      = p.Z0 i j := by
  have hb : p.aBase ≠ 0 := ne_of_gt (lt_of_lt_of_le zero_lt_one hp.base_ge_one)
  unfold altShare zCProd
  simp only [hp.rho_mul]
  rw [sumFin_mul_const]
  unfold safeDiv
  by_cases hS : (sumFin d.m fun r => p.Z0 (r, i.2) j) = 0
  · have := sumFin_eq_zero_of_nonneg _ _ (fun r => hp.z_nonneg (r, i.2) j) hS i.1
    simp only [Prod.mk.eta] at this
    rw [hS, this]; simp
  · rw [if_neg (mul_ne_zero hS hb)]
    field_simp

end

/-! ### the economic state -/

/-- the equilibrium of the economic state, pointwise -/
structure EqEcon (p : Params d) (e : Econ d) : Prop where
  prod : ∀ f, e.prod f = p.x0 f
  stock : ∀ sec f, (p.invDur sec).isSome = true → e.stock sec f = stock0 p sec f
  orders : ∀ i j, e.orders i j = p.Z0 i j
  fd : ∀ i c, e.fd i c = p.Y0 i c
  reb : e.reb = []
  dTot : ∀ f, e.dTot f = p.x0 f
  alpha : ∀ f, e.alpha f = p.aBase
  delta : ∀ f, e.deltaTot f = 0
  unmet : ∀ f, e.fdUnmet f = 0

section
variable {p : Params d} {e : Econ d} (hp : EqParams p) (he : EqEcon p e)
include hp he

theorem EqEcon.prod_eq : e.prod = p.x0 := funext he.prod
theorem EqEcon.orders_eq : e.orders = p.Z0 := funext fun i => funext (he.orders i)
theorem EqEcon.fd_eq : e.fd = p.Y0 := funext fun i => funext (he.fd i)
theorem EqEcon.dTot_eq : e.dTot = p.x0 := funext he.dTot
theorem EqEcon.alpha_eq : e.alpha = fun _ => p.aBase := funext he.alpha
theorem EqEcon.delta_eq : e.deltaTot = fun _ => 0 := funext he.delta

theorem EqEcon.xOpt_eq : xOpt p e.dTot e.deltaTot e.alpha = p.x0 := by
  rw [he.dTot_eq hp, he.delta_eq hp, he.alpha_eq hp]
  exact funext hp.xOpt_eq

theorem EqEcon.not_capNegative : ¬ capNegative p e.deltaTot e.alpha := by
  rw [he.delta_eq hp, he.alpha_eq hp]
  exact hp.not_capNegative

/-- `calc_overproduction` leaves the base value -/
theorem EqEcon.overprod_ok : EqEcon p (overprodPhase p e) := by
  refine { he with alpha := ?_ }
  intro f
  show overprod p e.alpha e.dTot e.prod f = p.aBase
  unfold overprod
  rw [alphaChg_of_nonpos p e.alpha e.dTot e.prod f
    (le_of_eq (scarcity_eq_zero_of_eq e.dTot e.prod f (by rw [he.dTot, he.prod]))), he.alpha]
  simp only [zero_mul, sub_self, add_zero]
  exact max_eq_right hp.base_ge_one

theorem EqEcon.not_anyConstraint : ¬ anyConstraint p e.stock p.x0 := by
  rintro ⟨s, r, t, h⟩
  unfold stockConstraint at h
  simp only [Bool.and_eq_true, decide_eq_true_eq] at h
  obtain ⟨⟨_, hs⟩, hlt⟩ := h
  rw [he.stock s (r, t) hs] at hlt
  unfold stock0 cons at hlt
  have h0 : 0 ≤ p.x0 (r, t) * p.a s (r, t) * durOrZero p s :=
    mul_nonneg (mul_nonneg (hp.x0_nonneg _) (hp.a_nonneg _ _)) (hp.dur_nonneg s)
  have := mul_le_mul_of_nonneg_left hp.psi_le_one h0
  nlinarith

/-- `calc_production` produces the initial output -/
theorem EqEcon.production_ok :
    ∃ e2, productionPhase p e = .ok e2 ∧ EqEcon p e2 ∧ e2.rebProd = e.rebProd := by
  refine ⟨{ e with prod := production p e.stock (xOpt p e.dTot e.deltaTot e.alpha) }, ?_, ?_, rfl⟩
  · unfold Boario.productionPhase
    rw [if_neg (he.not_capNegative hp)]
  · refine { he with prod := ?_ }
    intro f
    show production p e.stock (xOpt p e.dTot e.deltaTot e.alpha) f = p.x0 f
    rw [he.xOpt_eq hp]
    unfold production
    rw [if_neg (he.not_anyConstraint hp)]

theorem EqEcon.rowTot_eq (i : Ind d) : rowTot e.orders e.fd e.reb i = p.x0 i := by
  unfold rowTot rebTot
  rw [he.orders_eq hp, he.fd_eq hp, he.reb, hp.balanced i]
  simp [sumList]

theorem EqEcon.deliver_orders (i j : Ind d) : (deliveries e).orders i j = p.Z0 i j := by
  show deliverCell (rowTot e.orders e.fd e.reb i) (e.prod i) (e.orders i j) = p.Z0 i j
  rw [he.rowTot_eq hp, he.prod, he.orders]
  unfold deliverCell safeDiv
  split_ifs with h0
  · rw [(hp.row_zero h0).1 j]; ring
  · exact div_mul_cancel₀ _ h0

theorem EqEcon.deliver_fd (i : Ind d) (c : Fd d) : (deliveries e).fd i c = p.Y0 i c := by
  show deliverCell (rowTot e.orders e.fd e.reb i) (e.prod i) (e.fd i c) = p.Y0 i c
  rw [he.rowTot_eq hp, he.prod, he.fd]
  unfold deliverCell safeDiv
  split_ifs with h0
  · rw [(hp.row_zero h0).2 c]; ring
  · exact div_mul_cancel₀ _ h0

theorem EqEcon.deliver_reb : (deliveries e).reb = [] := by
  show e.reb.map _ = []
  rw [he.reb]; rfl

theorem EqEcon.addUseClose : addUseClose p e.prod (deliveries e).orders := by
  intro s r t
  have h : stockAdd (deliveries e).orders s (r, t) = stockUse p e.prod s (r, t) := by
    unfold stockAdd stockUse
    simp only [he.deliver_orders hp]
    rw [he.prod, hp.use_eq]
  rw [h]
  exact isClose_self _

/-- `distribute_production` serves every demand in full and skips the stock update -/
theorem EqEcon.distribute_ok :
    ∃ e3, distribute p e = .ok e3 ∧ EqEcon p e3 ∧ e3.rebProd = [] := by
  refine ⟨distributeFinish e (deliveries e) e.stock, ?_, ?_, he.deliver_reb hp⟩
  · unfold Boario.distribute
    rw [if_pos (he.addUseClose hp)]
    rfl
  · refine { he with unmet := ?_, reb := ?_, dTot := ?_ }
    · show subBlocks e.reb (deliveries e).reb = []
      rw [he.reb, he.deliver_reb hp]; rfl
    · intro f
      show (if e.reb.isEmpty then e.dTot else _) f = p.x0 f
      rw [he.reb]
      exact he.dTot f
    · intro f
      show fdUnmetOf e (deliveries e) f = 0
      unfold fdUnmetOf
      simp only [he.deliver_fd hp, he.fd, sub_self]
      rw [sumFd_eq_sum_prod]
      simp

theorem EqEcon.gap_zero (s : Fin d.n) (f : Ind d) :
    gapOpen p e.stock (xOpt p e.dTot e.deltaTot e.alpha) s f = 0 := by
  rw [he.xOpt_eq hp]
  unfold gapOpen
  cases hv : p.invDur s with
  | none => rfl
  | some v =>
    simp only
    rw [he.stock s f (by rw [hv]; rfl)]
    unfold goal stock0
    rw [sub_self, pos_zero, mul_zero]

theorem EqEcon.ordersFrom_eq (gap : Fin d.n → Ind d → Rat) (hg : ∀ s f, gap s f = 0)
    (i j : Ind d) : ordersFrom p e gap i j = p.Z0 i j := by
  unfold ordersFrom needWith supplierShare
  rw [hg, zero_add, he.prod, hp.use_eq, he.delta_eq hp, he.alpha_eq hp]
  split_ifs
  · exact hp.altShare_eq i j
  · exact hp.share_eq i j

theorem EqEcon.ordersFinish_ok (gap : Fin d.n → Ind d → Rat) (hg : ∀ s f, gap s f = 0) :
    ∃ e4, ordersFinish p e gap = .ok e4 ∧ EqEcon p e4 := by
  have ho : ordersFrom p e gap = p.Z0 :=
    funext fun i => funext fun j => he.ordersFrom_eq hp gap hg i j
  refine ⟨{ e with orders := ordersFrom p e gap,
                   dTot := rowTot (ordersFrom p e gap) e.fd e.reb }, ?_, ?_⟩
  · unfold Boario.ordersFinish
    simp only
    rw [if_neg]
    rintro ⟨r, s, r', s', h⟩
    rw [ho] at h
    exact absurd (hp.z_nonneg _ _) (not_le.2 h)
  · refine { he with orders := ?_, dTot := ?_ }
    · intro i j
      exact he.ordersFrom_eq hp gap hg i j
    · intro f
      show rowTot (ordersFrom p e gap) e.fd e.reb f = p.x0 f
      rw [ho, ← he.orders_eq hp]
      exact he.rowTot_eq hp f

/-- `calc_orders` re-orders exactly the initial flows, whichever branch is taken -/
theorem EqEcon.orders_ok : ∃ e4, Boario.orders p e = .ok e4 ∧ EqEcon p e4 := by
  unfold Boario.orders
  rw [if_neg (he.not_capNegative hp)]
  split_ifs
  · exact he.ordersFinish_ok hp _ fun _ _ => rfl
  · exact he.ordersFinish_ok hp _ (he.gap_zero hp)

end

/-! ### the constructed parameters -/

section
variable (tb : Table d) (c : Config d)

theorem steply_pos (hdt : 0 < c.dt) (hy : 0 < c.yearFactor) : 0 < steply c := by
  unfold steply
  exact div_pos (by exact_mod_cast hdt) (by exact_mod_cast hy)

/-- durations are at least 2 or more than one step, in any case positive -/
theorem invDurOf_pos (s : Fin d.n) (v : Rat) (h : invDurOf c s = some v) : 0 < v := by
  unfold invDurOf at h
  split at h
  · cases h
  · simp only at h
    split_ifs at h with hw <;> injection h with h <;> subst h
    · norm_num
    · linarith [not_le.1 hw]

theorem durOrZero_mkParams_nonneg (s : Fin d.n) : 0 ≤ durOrZero (mkParams tb c) s := by
  unfold durOrZero
  split
  · next v hv => exact (invDurOf_pos c s v hv).le
  · exact le_refl _

theorem coefA_nonneg (hz : ∀ i j, 0 ≤ tb.Z i j) (hx : ∀ f, 0 ≤ tb.x f) (i j : Ind d) :
    0 ≤ coefA tb i j := by
  unfold coefA
  split_ifs
  · exact le_refl _
  · exact mul_nonneg (hz i j) (div_nonneg zero_le_one (hx j))

/-- what an industry uses of an input in a year is what the table says it buys -/
theorem techCoef_use (hz : ∀ i j, 0 ≤ tb.Z i j)
    (hva : ∀ f, sumInd d (fun i => tb.Z i f) ≤ tb.x f) (s : Fin d.n) (f : Ind d) :
    tb.x f * techCoef tb s f = zC tb s f := by
  unfold techCoef zC coefA
  by_cases h0 : tb.x f = 0
  · have hs : sumInd d (fun i => tb.Z i f) = 0 :=
      le_antisymm (h0 ▸ hva f) (sumInd_nonneg _ fun i => hz i f)
    have hcol : ∀ i, tb.Z i f = 0 := sumInd_eq_zero_of_nonneg _ (fun i => hz i f) hs
    simp only [h0, if_true, hcol]
    rw [sumFin_eq_sum]
    simp
  · simp only [if_neg h0]
    rw [sumFin_mul_const]
    field_simp

theorem zShare_mul (hz : ∀ i j, 0 ≤ tb.Z i j) (i j : Ind d) :
    zC tb i.2 j * zShare tb i j = tb.Z i j := by
  unfold zShare safeDiv
  split_ifs with h0
  · have := sumFin_eq_zero_of_nonneg _ _ (fun r => hz (r, i.2) j) h0 i.1
    simp only [Prod.mk.eta] at this
    rw [this, mul_zero]
  · field_simp

theorem mkParams_eqParams
    (hz : ∀ i j, 0 ≤ tb.Z i j) (hy : ∀ i cc, 0 ≤ tb.Y i cc)
    (hbal : ∀ i, tb.x i = sumInd d (tb.Z i) + sumFd d (tb.Y i))
    (hva : ∀ f, sumInd d (fun i => tb.Z i f) ≤ tb.x f)
    (hdt : 0 < c.dt) (hyear : 0 < c.yearFactor) (hbase : 1 ≤ c.aBase)
    (hpsi : c.isPsi = true → c.psi ≤ 1) :
    EqParams (mkParams tb c) := by
  have hst := steply_pos c hdt hyear
  have hx : ∀ f, 0 ≤ tb.x f := fun f => by
    rw [hbal]; exact add_nonneg (sumInd_nonneg _ (hz f)) (sumFd_nonneg _ (hy f))
  refine
    { z_nonneg := fun i j => mul_nonneg (hz i j) hst.le
      y_nonneg := fun i cc => mul_nonneg (hy i cc) hst.le
      balanced := ?_
      a_nonneg := fun s f => sumFin_nonneg' _ _ fun r => coefA_nonneg tb hz hx _ _
      use_eq := ?_
      share_eq := ?_
      dur_nonneg := durOrZero_mkParams_nonneg tb c
      base_ge_one := hbase
      psi_le_one := ?_ }
  · intro i
    show tb.x i * steply c
      = sumInd d (fun j => tb.Z i j * steply c) + sumFd d (fun cc => tb.Y i cc * steply c)
    rw [sumInd_mul_const, sumFd_mul_const, hbal i]; ring
  · intro s f
    show tb.x f * steply c * techCoef tb s f = sumFin d.m fun r => tb.Z (r, s) f * steply c
    have h := techCoef_use tb hz hva s f
    unfold zC at h
    rw [sumFin_mul_const, ← h]; ring
  · intro i j
    show (sumFin d.m fun r => tb.Z (r, i.2) j * steply c) * zShare tb i j = tb.Z i j * steply c
    have h := zShare_mul tb hz i j
    unfold zC at h
    rw [sumFin_mul_const]
    calc (sumFin d.m fun r => tb.Z (r, i.2) j) * steply c * zShare tb i j
        = ((sumFin d.m fun r => tb.Z (r, i.2) j) * zShare tb i j) * steply c := by ring
      _ = tb.Z i j * steply c := by rw [h]
  · show (if c.isPsi then c.psi else 1) ≤ 1
    split_ifs with h
    · exact hpsi h
    · exact le_refl _

end

/-! ### the event phases without events -/

theorem eventsPre_no_events (s : Sim d) (h1 : s.trackers = []) (h2 : s.nBlocks = 0)
    (hK : ∀ f, 0 ≤ s.p.K f) :
    ∃ s1, eventsPre s = .ok s1 ∧ s1.p = s.p ∧ s1.dt = s.dt ∧ s1.t = s.t ∧ s1.trackers = [] ∧
      s1.nBlocks = 0 ∧ s1.econ = { s.econ with deltaTot := fun _ => 0 } := by
  have hl : lostCapital ([] : List (Tracker d)) = fun _ => 0 := by
    funext i; simp [lostCapital, sumList]
  have ha : arbDelta ([] : List (Tracker d)) = fun _ => 0 := by
    funext i; simp [arbDelta]
  have hd : deltaTotOf s.p (fun _ => 0) (fun _ => 0) = fun _ => 0 := by
    funext i; simp [deltaTotOf, deltaCap, safeDiv]
  have hx : ¬ lostExceeds s.p (fun _ => 0) := by
    rintro ⟨r, t, h⟩
    exact absurd (hK (r, t)) (not_le.2 h)
  refine ⟨{ s with trackers := [], nBlocks := 0, econ := { s.econ with deltaTot := fun _ => 0 } },
    ?_, rfl, rfl, rfl, rfl, rfl, rfl⟩
  unfold eventsPre
  rw [h1, h2]
  simp only [lifecycle, List.map_nil, advance, hl, ha, hd, if_neg hx, anyRebuilding, List.any_nil,
    Bool.false_eq_true, if_false, ne_eq, not_true_eq_false]

theorem eventsPost_no_events (s : Sim d) (h1 : s.trackers = []) :
    eventsPost s = { s with trackers := [] } := by
  unfold eventsPost
  rw [h1]
  rfl

/-- converse of `nextStep_ok`: the phases compose to a step -/
theorem nextStep_of_phases (s s1 : Sim d) (e2 e3 e4 : Econ d)
    (h1 : eventsPre s = .ok s1)
    (h2 : productionPhase s1.p (if 1 < s1.t then overprodPhase s1.p s1.econ else s1.econ) = .ok e2)
    (h3 : distribute s1.p e2 = .ok e3)
    (h4 : orders s1.p e3 = .ok e4) :
    nextStep s = .ok { s1 with
      econ := e4, trackers := recoverAll s1.t (receiveAll e3.rebProd s1.trackers),
      t := s1.t + s1.dt } := by
  unfold nextStep
  rw [h1]
  simp only [Outcome.bind]
  rw [h2]
  simp only [h3, eventsPost, h4]

end Boario
