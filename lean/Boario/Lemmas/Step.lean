/-
  Helper lemmas: which phases of `nextStep` touch the parameters and the input stocks
  (only `distribute` changes the stocks; nothing changes the parameters).
-/
import Boario.Lemmas.Deliver
import Boario.Sim

namespace Boario
variable {d : Dims}

/-- tracked (finite-duration) stock cells that are non-negative stay so through an `ok` distribution -/
theorem distribute_ok_stock_nonneg (p : Params d) (e e' : Econ d) (h : distribute p e = .ok e')
    (h0 : ∀ s f, (p.invDur s).isSome = true → 0 ≤ e.stock s f) :
    ∀ s f, (p.invDur s).isSome = true → 0 ≤ e'.stock s f := by
  intro s f hs
  rcases distribute_ok p e e' h with ⟨_, rfl⟩ | ⟨_, hn, rfl⟩
  · exact h0 s f hs
  · show 0 ≤ stockUpdated p e (deliveries e).orders s f
    by_contra hlt
    exact hn ⟨s, f.1, f.2, hs, lt_of_not_ge hlt⟩

theorem eventsPre_ok (s s1 : Sim d) (h : eventsPre s = .ok s1) :
    s1.p = s.p ∧ s1.econ.stock = s.econ.stock := by
  unfold eventsPre at h
  simp only at h
  split_ifs at h <;> injection h with h <;> subst h <;> exact ⟨rfl, rfl⟩

theorem productionPhase_ok (p : Params d) (e e2 : Econ d) (h : productionPhase p e = .ok e2) :
    e2.stock = e.stock := by
  unfold productionPhase at h
  split_ifs at h
  injection h with h
  subst h
  rfl

theorem ordersFinish_ok (p : Params d) (e e4 : Econ d) (gap : Fin d.n → Ind d → Rat)
    (h : ordersFinish p e gap = .ok e4) : e4.stock = e.stock := by
  unfold ordersFinish at h
  simp only at h
  split_ifs at h
  injection h with h
  subst h
  rfl

theorem orders_ok (p : Params d) (e e4 : Econ d) (h : orders p e = .ok e4) :
    e4.stock = e.stock := by
  unfold orders at h
  split_ifs at h
  · exact ordersFinish_ok p e e4 _ h
  · exact ordersFinish_ok p e e4 _ h

theorem bind_ok {α β : Type} (o : Outcome α) (f : α → Outcome β) (b : β)
    (h : o.bind f = .ok b) : ∃ a, o = .ok a ∧ f a = .ok b := by
  cases o with
  | ok a => exact ⟨a, rfl, h⟩
  | crashed a => simp [Outcome.bind] at h
  | rejected => simp [Outcome.bind] at h
  | internal => simp [Outcome.bind] at h

/-- decomposition of an `ok` step into its phases -/
theorem nextStep_ok (s s' : Sim d) (h : nextStep s = .ok s') :
    ∃ (s1 : Sim d) (e2 e3 e4 : Econ d),
      eventsPre s = .ok s1 ∧
      productionPhase s1.p (if 1 < s1.t then overprodPhase s1.p s1.econ else s1.econ) = .ok e2 ∧
      distribute s1.p e2 = .ok e3 ∧
      orders s1.p e3 = .ok e4 ∧
      s'.p = s1.p ∧ s'.econ = e4 := by
  unfold nextStep at h
  obtain ⟨s1, h1, h⟩ := bind_ok _ _ _ h
  simp only at h
  obtain ⟨e2, h2, h⟩ := bind_ok _ _ _ h
  split at h
  · cases h
  · cases h
  · cases h
  · rename_i e3 h3
    obtain ⟨e4, h4, h⟩ := bind_ok _ _ _ h
    injection h with h
    subst h
    exact ⟨s1, e2, e3, e4, h1, h2, h3, h4, rfl, rfl⟩

end Boario
