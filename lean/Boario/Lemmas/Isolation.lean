/-
  Lemmas on `Storage.run`: operations that do not touch a key leave its file alone, and the writes
  of the owner append exactly its rows.
-/
import Boario.Storage

namespace Boario.Storage

/-- an operation that respects the ownership of `key` by `sim`: nobody (re)creates the file under
    `key`, `sim` writes only under `key`, and nobody else writes under `key` -/
def Respects (sim : SimId) (key : Key) : Op → Prop
  | .construct _ k _ => k ≠ key
  | .write s k _ => if s = sim then k = key else k ≠ key

theorem ownRows_append (a b : List Op) (sim : SimId) :
    ownRows (a ++ b) sim = ownRows a sim ++ ownRows b sim := by
  simp [ownRows, List.filterMap_append]

theorem ownRows_cons_construct (s : SimId) (k : Key) (b : Bool) (ops : List Op) (sim : SimId) :
    ownRows (Op.construct s k b :: ops) sim = ownRows ops sim := by
  simp [ownRows]

theorem ownRows_nil_of_no_write (ops : List Op) (sim : SimId)
    (h : ∀ op ∈ ops, ∀ k r, op ≠ Op.write sim k r) : ownRows ops sim = [] := by
  induction ops with
  | nil => rfl
  | cons op rest ih =>
    have hr := ih (fun op hop => h op (List.mem_cons_of_mem _ hop))
    cases op with
    | construct s k b => rw [ownRows_cons_construct]; exact hr
    | write s k row =>
      have hs : s ≠ sim := by
        intro hs; subst hs
        exact h _ List.mem_cons_self k row rfl
      simp only [ownRows, List.filterMap_cons, if_neg hs]
      exact hr

theorem foldl_step_respects (sim : SimId) (key : Key) (post : List Op)
    (hp : ∀ op ∈ post, Respects sim key op) :
    ∀ (w : World) (o : SimId) (rows : List Nat), w key = some ⟨o, rows⟩ →
      (post.foldl step w) key = some ⟨o, rows ++ ownRows post sim⟩ := by
  induction post with
  | nil => intro w o rows hw; simp [ownRows, hw]
  | cons op rest ih =>
    intro w o rows hw
    have hop := hp op List.mem_cons_self
    have hrest := ih (fun op h => hp op (List.mem_cons_of_mem _ h))
    rw [List.foldl_cons]
    cases op with
    | construct s k b =>
      rw [ownRows_cons_construct]
      apply hrest
      have hk : key ≠ k := fun h => hop h.symm
      cases b <;> simp [step, hk, hw]
    | write s k row =>
      simp only [Respects] at hop
      by_cases hs : s = sim
      · rw [if_pos hs] at hop
        have h1 : step w (Op.write s k row) key = some ⟨o, rows ++ [row]⟩ := by
          simp [step, hop, hw]
        have := hrest _ o _ h1
        rw [this]
        simp [ownRows, hs]
      · rw [if_neg hs] at hop
        have hk : key ≠ k := fun h => hop h.symm
        have h1 : step w (Op.write s k row) key = some ⟨o, rows⟩ := by
          simp [step, hk, hw]
        have := hrest _ o _ h1
        rw [this]
        simp [ownRows, hs]

end Boario.Storage
