/-
  Element-wise formulas of the source = the model's definitions: deliveries, inventory update, reconstruction ledger (C04, C05, C08).
  See `Boario/Properties/Formulas.lean` for the approach; one module per topic so that a changed formula breaks only the
  theorems about it.
-/
import Boario.Properties.FormulaTactics

set_option linter.unusedTactic false
set_option linter.unreachableTactic false
set_option linter.unusedSimpArgs false
set_option linter.unnecessarySeqFocus false

namespace Boario.Gen
open Boario

variable {d : Dims}

/-- one cell of `distributed_production` in the source is the model's `deliverCell` (demand / row total × production,
    0 for a row without demand). -/
theorem deliverCell_is_code (tot prod cell : Rat) : delivery_cell cell tot prod = deliverCell tot prod cell := by
  simp only [delivery_cell, deliverCell, safeDiv] <;>
    formula_cases

/-- every delivery of the step is the code's cell formula applied to the fresh row total. -/
theorem deliveries_are_code (e : Econ d) (i j : Ind d) (c : Fd d) :
    (deliveries e).orders i j = delivery_cell (e.orders i j) (rowTot e.orders e.fd e.reb i) (e.prod i) ∧
    (deliveries e).fd i c = delivery_cell (e.fd i c) (rowTot e.orders e.fd e.reb i) (e.prod i) := by
  constructor <;> (rw [deliverCell_is_code]; rfl)

/-- `stock_use` of the source is the model's `stockUse`. -/
theorem stockUse_is_code (p : Params d) (prod : Ind d → Rat) (s : Fin d.n) (f : Ind d) :
    stock_use_cell (prod f) (p.a s f) = stockUse p prod s f := by
  simp only [stock_use_cell, stockUse] <;>
    (first | rfl | ring1)

/-- the inventory update of the source is the model's `stockUpdated`. -/
theorem stockUpdated_is_code (p : Params d) (e : Econ d) (dl : Ind d → Ind d → Rat) (s : Fin d.n) (f : Ind d) :
    stock_update_cell (e.stock s f) (stock_use_cell (e.prod f) (p.a s f)) (stockAdd dl s f) = stockUpdated p e dl s f := by
  simp only [stock_update_cell, stock_use_cell, stockUpdated, stockUse] <;>
    (first | rfl | ring1)

/-- the reconstruction ledger after delivery is the model's `subBlock`, cell by cell. -/
theorem subBlock_is_code (b c : RebBlock d) (i j : Ind d) (cc : Fd d) :
    (subBlock b c).indus i j = rebuild_demand_cell (b.indus i j) (c.indus i j) ∧
    (subBlock b c).house i cc = rebuild_demand_cell (b.house i cc) (c.house i cc) := by
  constructor <;> (simp only [subBlock, rebuild_demand_cell] <;> (first | rfl | ring1))

end Boario.Gen
